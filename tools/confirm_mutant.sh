#!/bin/bash
# usage: tools/confirm_mutant.sh <mutant dir with patch.diff + demo.rs> [crate-subdir (indextree|indextree-macros)]
# Confirms in a scratch worktree of /repo: builds; existing suite passes with the change; demo fails with the
# change (debug or release) and passes without it (debug and release). Prints one summary line.
set -u
d=$(realpath $1); crate=${2:-indextree}
# optional: FLAGS="--features deser" (cargo flags for the demo), EXTRA_PATCH=<file> (applied in both runs, e.g. a dev-dependency for the demo)
FLAGS=${FLAGS:-}; EXTRA_PATCH=${EXTRA_PATCH:-}
wt=/tmp/confirm-wt-$$
export CARGO_TARGET_DIR=${CONFIRM_TARGET:-/tmp/confirm-target}
git -C /repo worktree add -q --detach $wt HEAD || exit 3
cleanup() { git -C /repo worktree remove --force $wt >/dev/null 2>&1; }
trap cleanup EXIT
cd $wt
git apply --check $d/patch.diff 2>/dev/null || { echo "RESULT $d: PATCH-DOES-NOT-APPLY"; exit 1; }
git apply $d/patch.diff
if [ -n "$EXTRA_PATCH" ]; then git apply $EXTRA_PATCH || { echo "RESULT $d: EXTRA-PATCH-DOES-NOT-APPLY"; exit 1; }; fi
if [ -n "$EXTRA_PATCH" ]; then git apply -R $EXTRA_PATCH; fi
suite=$(cargo test --workspace --offline 2>&1); src=$?
if [ -n "$EXTRA_PATCH" ]; then git apply $EXTRA_PATCH; fi
cp $d/demo.rs $crate/tests/demo_mutant.rs
(cd $crate && cargo test --offline $FLAGS --test demo_mutant >/tmp/confirm-$$-d1 2>&1); d1=$?
(cd $crate && timeout 600 cargo test --offline $FLAGS --release --test demo_mutant >/tmp/confirm-$$-r1 2>&1); r1=$?
git apply -R $d/patch.diff
(cd $crate && cargo test --offline $FLAGS --test demo_mutant >/tmp/confirm-$$-d0 2>&1); d0=$?
(cd $crate && cargo test --offline $FLAGS --release --test demo_mutant >/tmp/confirm-$$-r0 2>&1); r0=$?
ok=BAD
if [ $src -eq 0 ] && { [ $d1 -ne 0 ] || [ $r1 -ne 0 ]; } && [ $d0 -eq 0 ] && [ $r0 -eq 0 ]; then ok=CONFIRMED; fi
echo "RESULT $d: $ok suite_with_change=$src demo_with_change(debug,release)=$d1,$r1 demo_without(debug,release)=$d0,$r0"
rm -f /tmp/confirm-$$-*
