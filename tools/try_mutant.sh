#!/bin/bash
# usage: tools/try_mutant.sh <patch.diff> <tier> <prop> [<prop>...]
# Applies a seeded change to /repo, runs the named checks, and ALWAYS restores /repo.
set -u
patch=$1; tier=$2; shift 2
cd /verif
if ! git -C /repo diff --quiet; then echo "/repo has local changes - refusing"; exit 3; fi
trap 'git -C /repo checkout -- . ; git -C /repo clean -fdq -e target >/dev/null 2>&1' EXIT
git -C /repo apply "$patch" || { echo "patch does not apply"; exit 3; }
for p in "$@"; do
  out=$(./check $p --tier $tier 2>/dev/null); rc=$?
  echo "== $p rc=$rc"
  echo "$out" | grep -E "^(VIOLATION|KNOWN|NOTE|  )" | head -8
done
