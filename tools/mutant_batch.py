#!/usr/bin/env python3
"""Runs checks against seeded changes in scratch worktrees (VERIF_REPO), several lanes in parallel.
usage: tools/mutant_batch.py <tier> <results.json> <lanes> <mutantdir>:<prop>[,<prop>...] ...
/repo itself is never touched."""
import sys, os, json, subprocess, threading, time

tier, results_path, lanes = sys.argv[1], sys.argv[2], int(sys.argv[3])
jobs = []
for a in sys.argv[4:]:
    d, props = a.split(":")
    jobs.append((os.path.abspath(d), props.split(",")))
results = json.load(open(results_path)) if os.path.exists(results_path) else {}
lock = threading.Lock()


def run(cmd, **kw):
    return subprocess.run(cmd, stdout=subprocess.PIPE, stderr=subprocess.STDOUT, text=True, **kw)


def lane(k):
    wt = "%s-%d" % (os.environ.get("MW_PREFIX", "/tmp/mw"), k)
    if not os.path.exists(wt):
        run(["git", "-C", "/repo", "worktree", "add", "-q", "--detach", wt, "HEAD"])
    while True:
        with lock:
            if not jobs:
                return
            d, props = jobs.pop(0)
        run(["git", "-C", wt, "checkout", "-q", "--detach", subprocess.check_output(["git", "-C", "/repo", "rev-parse", "HEAD"], text=True).strip()])
        run(["git", "-C", wt, "checkout", "--", "."])
        run(["git", "-C", wt, "clean", "-fdq"])
        r = run(["git", "-C", wt, "apply", os.path.join(d, "patch.diff")])
        if r.returncode != 0:
            with lock:
                results[d] = {"error": "patch does not apply: " + r.stdout[-300:]}
            continue
        for p in props:
            t0 = time.time()
            env = dict(os.environ, VERIF_REPO=wt)
            r = run(["./check", p, "--tier", tier], cwd="/verif", env=env)
            lines = r.stdout.splitlines()
            viol = [l for l in lines if l.startswith("VIOLATION")]
            kinds = [lines[i + 1].strip()[:200] for i, l in enumerate(lines) if l.startswith("VIOLATION") and i + 1 < len(lines)]
            notes = sorted({l.split("belonging to ")[1].split(" ")[0] for l in lines if l.startswith("NOTE:") and "belonging to " in l})
            tool = [l for l in lines if l.startswith("TOOL-ERROR")]
            with lock:
                results.setdefault(d, {})[p] = {"rc": r.returncode, "violations": len(viol), "first": kinds[:3], "notes_props": notes,
                                                "tool_error": (tool[0][:600] if tool else ""), "wall_s": round(time.time() - t0)}
                json.dump(results, open(results_path, "w"), indent=1)
                print("%s %s rc=%d viol=%d %ds %s" % (d, p, r.returncode, len(viol), time.time() - t0, tool[0][:300] if tool else ""), flush=True)
        run(["git", "-C", wt, "checkout", "--", "."])


ts = [threading.Thread(target=lane, args=(k,)) for k in range(lanes)]
[t.start() for t in ts]
[t.join() for t in ts]
print("done")
