#!/usr/bin/env python3
"""Collects one round of confirmed seeded changes into /verif/seeded/R<n>-<prop>-m<k>/ (patch.diff, demo.rs, meta.json)
and appends them to seeded/INDEX.json.
usage: tools/mk_seeded_round.py <n> <outdir pattern with {prop}> <round text> <first.json> <final.json> confirm1.txt [confirm2.txt ...]
  first.json  = results of tools/mutant_batch.py with the machinery as it stood when the changes were delivered
  final.json  = results with the machinery as committed (may be the same file)"""
import os, sys, json, re, shutil
V = "/verif"
n, pattern, round_text, first_p, final_p = sys.argv[1:6]
conf = {}
for f in sys.argv[6:]:
    for l in open(f):
        m = re.match(r"RESULT (\S+): (\w+) (.*)", l)
        if m:
            conf[m.group(1)] = (m.group(2), m.group(3))


def load(ps):
    res = {}
    for p in ps.split(","):
        if os.path.exists(p):
            for d, r in json.load(open(p)).items():
                res.setdefault(d, {}).update(r)
    return res


first, final = load(first_p), load(final_p)
index = json.load(open(V + "/seeded/INDEX.json"))
index = [e for e in index if not e["id"].startswith("R%s-" % n)]
flags = {"C16": "--features deser"}
for prop in ["C%02d" % i for i in range(1, 19)]:
    for k in (1, 2, 3):
        d = pattern.format(prop=prop) + "/m%d" % k
        if not os.path.exists(d + "/patch.diff"):
            continue
        sid = "R%s-%s-m%d" % (n, prop, k)
        c = conf.get(d)
        if not c or c[0] != "CONFIRMED":
            print("skip (not confirmed)", sid)
            continue
        if os.path.exists("%s/seeded/rejected/%s" % (V, sid)):
            print("skip (rejected)", sid)
            continue
        out = "%s/seeded/%s" % (V, sid)
        os.makedirs(out, exist_ok=True)
        shutil.copy(d + "/patch.diff", out + "/patch.diff")
        shutil.copy(d + "/demo.rs", out + "/demo.rs")
        notes = open(d + "/notes.md").read() if os.path.exists(d + "/notes.md") else ""
        r0, r1 = first.get(d, {}), dict(first.get(d, {}))
        r1.update(final.get(d, {}))
        detected_by = sorted(p for p, x in r1.items() if isinstance(x, dict) and x.get("rc") == 1)
        missed_by = sorted(p for p, x in r1.items() if isinstance(x, dict) and x.get("rc") == 0)
        at_first = sorted(p for p, x in r0.items() if isinstance(x, dict) and x.get("rc") == 1)
        crate = "indextree-macros" if prop == "C15" else "indextree"
        meta = {
            "id": sid,
            "written_for_property": prop,
            "round": round_text,
            "source": "independent sub-agent given only the property text and a scratch worktree (nothing from /verif)",
            "what_it_needs_to_manifest_and_why": notes.strip(),
            "confirmed_by_me": {
                "how": "tools/confirm_mutant.sh in a fresh scratch worktree of /repo HEAD (suite with the change; demo in debug and release with and without the change)",
                "demo_cargo_flags": flags.get(prop, ""),
                "demo_crate": crate,
                "result": c[1],
            },
            "reported_when_delivered": ("yes, by " + ", ".join(at_first)) if at_first else "NO - strengthened afterwards, see DESIGN 11.6",
            "checks_run": {p: {"exit": x.get("rc"), "violations_printed": x.get("violations"), "first": x.get("first"), "also_noted_for": x.get("notes_props")}
                           for p, x in r1.items() if isinstance(x, dict)},
            "how_checks_were_run": "quick tier, VERIF_REPO=<scratch worktree with patch.diff applied> ./check <property> (tools/mutant_batch.py); the run with the machinery as committed is recorded",
            "detected_by": detected_by,
            "not_flagged_by": missed_by,
        }
        json.dump(meta, open(out + "/meta.json", "w"), indent=1)
        index.append({"id": sid, "detected_by": detected_by, "not_flagged_by": missed_by})
        print(sid, "own" if prop in detected_by else "OTHER" if detected_by else "MISSED", detected_by, "first:", at_first)
json.dump(index, open(V + "/seeded/INDEX.json", "w"), indent=1)
print(len(index), "entries")
