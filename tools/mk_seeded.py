#!/usr/bin/env python3
"""Collects the confirmed seeded changes into /verif/seeded/<id>/ (patch.diff, demo.rs, meta.json)."""
import os, json, re, shutil, glob
V = "/verif"
conf = {}
for f in glob.glob(V + "/work/confirm*.txt"):
    for l in open(f):
        m = re.match(r"RESULT (\S+): (\w+) (.*)", l)
        if m:
            conf[m.group(1)] = (m.group(2), m.group(3))
res = {}
for f in ["mres1.json", "mres2.json", "mres3.json", "mres_final.json"]:
    p = V + "/work/" + f
    if os.path.exists(p):
        for d, r in json.load(open(p)).items():
            res.setdefault(d, {}).update(r)
os.makedirs(V + "/seeded", exist_ok=True)
index = []
for prop in ["C%02d" % i for i in range(1, 19)]:
    for k in (1, 2, 3):
        d = "/tmp/mut-%s-out/m%d" % (prop, k)
        if not os.path.exists(d + "/patch.diff"):
            continue
        sid = "%s-m%d" % (prop, k)
        c = conf.get(d)
        if not c or c[0] != "CONFIRMED":
            print("skip (not confirmed)", sid)
            continue
        out = "%s/seeded/%s" % (V, sid)
        os.makedirs(out, exist_ok=True)
        shutil.copy(d + "/patch.diff", out + "/patch.diff")
        shutil.copy(d + "/demo.rs", out + "/demo.rs")
        for extra in ("devdep.diff",):
            if os.path.exists(d + "/" + extra):
                shutil.copy(d + "/" + extra, out + "/" + extra)
        notes = open(d + "/notes.md").read() if os.path.exists(d + "/notes.md") else ""
        r = res.get(d, {})
        detected_by = sorted(p for p, x in r.items() if isinstance(x, dict) and x.get("rc") == 1)
        missed_by = sorted(p for p, x in r.items() if isinstance(x, dict) and x.get("rc") == 0)
        demo_where = "indextree-macros/tests/demo_mutant.rs" if prop == "C15" else "indextree/tests/demo_mutant.rs"
        flags = {"C16": "--features deser (with devdep.diff applied: serde_json as dev-dependency for the demo only)",
                 "C17-m1": "--features par_iter", "C17-m2": "--no-default-features", "C17-m3": "--features deser"}
        meta = {
            "id": sid,
            "written_for_property": prop,
            "source": "independent sub-agent given only the property text and a scratch worktree (nothing from /verif)",
            "what_it_needs_to_manifest_and_why": notes.strip(),
            "confirmed_by_me": {
                "how": "tools/confirm_mutant.sh in a fresh scratch worktree of /repo HEAD: existing suite (cargo test --workspace --offline) with the change; demo copied to %s and run in debug and release with and without the change" % demo_where,
                "demo_cargo_flags": flags.get(sid, flags.get(prop, "")),
                "result": c[1],
            },
            "checks_run": {p: {"exit": x.get("rc"), "violations_printed": x.get("violations"), "first": x.get("first"), "also_noted_for": x.get("notes_props")}
                           for p, x in r.items() if isinstance(x, dict)},
            "how_checks_were_run": "quick tier, VERIF_REPO=<scratch worktree with patch.diff applied> ./check <property> (tools/mutant_batch.py); /repo itself untouched; equivalent to `git -C /repo apply patch.diff; ./check <property>; git -C /repo checkout -- .` (tools/try_mutant.sh)",
            "detected_by": detected_by,
            "not_flagged_by": missed_by,
        }
        json.dump(meta, open(out + "/meta.json", "w"), indent=1)
        index.append((sid, detected_by, missed_by))
for sid, det, miss in index:
    print(sid, "detected by", ",".join(det) or "-", ("| not flagged by " + ",".join(miss)) if miss else "")
json.dump([{"id": s, "detected_by": d, "not_flagged_by": m} for s, d, m in index], open(V + "/seeded/INDEX.json", "w"), indent=1)
