#!/usr/bin/env python3
"""Pre-computes the spec-only artefacts of the thorough tier (cached by spec hash)."""
import sys, time
sys.path.insert(0, "/verif/lib")
import vlib
for name in ["GenShapes_k8", "GenRecycled_k7", "GenShapesMulti_k7", "GenPrintShapes_k7", "TreeMacro8", "GenPrint_s5", "TreeMacro7", "Gen_s5g0", "Gen_s4g2"]:
    t = time.time()
    try:
        p, m = vlib.ensure_bundles(name, workers=8)
        print(name, m["states"], m["transitions"], "cached" if m["cached"] else "generated", round(time.time() - t), "s", flush=True)
    except Exception as e:
        print(name, "FAILED", str(e)[:500], flush=True)
for name in ["MC_any4", "MC_fifo5", "mechanisms/Links5", "mechanisms/Readers3", "mechanisms/ArenaImpl4"]:
    t = time.time()
    try:
        r = vlib.run_mc(name, workers=8, xmx="16g")
        print(name, r["states"], r["transitions"], "cached" if r["cached"] else "computed", round(time.time() - t), "s", flush=True)
    except Exception as e:
        print(name, "FAILED", str(e)[:500], flush=True)
