INIT Init
NEXT Next
