\* MODULE GenMulti.tla
INIT InitShapesMulti
NEXT NextNone
CONSTANTS
  MaxSlots = 6
  GenCap = 0
  RetireMin = 1000000
  Policy = "fifo"
  NVals = 0
  MaxReserve = 0
  EmitMode = "full"
CHECK_DEADLOCK FALSE
INVARIANTS Emit
