SPECIFICATION Spec
CONSTANTS
  MaxSlots = 4
  GenCap = 1
  RetireMin = 1
  Policy = "any"
  NVals = 1
  MaxReserve = 1
VIEW View
CHECK_DEADLOCK FALSE
INVARIANTS TypeOK ForestOK C01_WellFormed C02_Acyclic C12_Bare C07_SlotAccounting C06_TokensDistinct C05_FailAtomic
PROPERTIES C03_MovePlacesSubtree C04_RemoveExact C07_Allocation C06_FreshIds C08_PayloadFrame C13_ClearIsFresh C13_ReserveInvisible
