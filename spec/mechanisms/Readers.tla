------------------------------ MODULE Readers -------------------------------
(***************************************************************************)
(* C18 at model level: NReaders concurrent readers, each stepping one of   *)
(* the iterator cursor machines of WalkOps.tla over ONE SHARED forest.     *)
(* The forest is not a variable that any action changes - the property     *)
(* ForestNeverWritten makes the assumption "no unsafe code, no interior    *)
(* mutability, only &Arena is shared" explicit; it cannot be derived in    *)
(* TLA+, it is a fact about the source text (guarded separately, see       *)
(* DESIGN.md C18).  Under that assumption TLC explores EVERY interleaving  *)
(* of the readers' steps and checks that each reader observes exactly what *)
(* a single thread observes (its output is a prefix of, and finally equal  *)
(* to, the sequential sequence), and that all readers finish.              *)
(***************************************************************************)
EXTENDS WalkOps

CONSTANTS MaxNodes, NReaders

VARIABLES f, rd      \* rd[r] = [kind, start, cur, out, done]
rvars == <<f, rd>>
Readers == 1..NReaders

Init == /\ f \in ForestsUpTo(MaxNodes)
        /\ rd \in [Readers -> { [kind |-> k, start |-> s, cur |-> FirstCursor(f, k, s), out |-> <<>>, done |-> FALSE]
                                 : k \in Kinds, s \in DOMAIN f.kids }]

StepR(r) ==
  LET me == rd[r] IN
  /\ ~me.done
  /\ rd' = [rd EXCEPT ![r] =
              IF Exhausted(me.kind, me.cur) THEN [me EXCEPT !.done = TRUE]
              ELSE [me EXCEPT !.out = @ \o Yield(me.kind, me.cur),
                              !.cur = Advance(f, me.kind, me.start, me.cur)]]
  /\ UNCHANGED f

Next == \E r \in Readers : StepR(r)
Spec == Init /\ [][Next]_rvars /\ \A r \in Readers : WF_rvars(StepR(r))

SameAsSequential ==
  \A r \in Readers : LET e == Expected(f, rd[r].kind, rd[r].start) IN
     IsPrefixOf(rd[r].out, e) /\ (rd[r].done => rd[r].out = e)
ForestNeverWritten == [][f' = f]_rvars
AllFinish == <>(\A r \in Readers : rd[r].done)
=============================================================================
