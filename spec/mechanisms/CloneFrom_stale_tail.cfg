\* MODULE mechanisms/CloneFrom.tla
SPECIFICATION Spec
CONSTANT NSlots = 3
CONSTANT Variant = "stale_tail"
CHECK_DEADLOCK FALSE
INVARIANTS CloneSound
CONSTRAINT Bounded
