------------------------------ MODULE FreeList ------------------------------
(***************************************************************************)
(* Mechanism specification of the intrusive free list of arena.rs:         *)
(* first_free_slot / last_free_slot and NodeData::NextFree(next) stored in *)
(* the removed slots themselves; free_node appends at the tail,            *)
(* pop_front_free_node (new_node) takes from the head.                     *)
(*                                                                         *)
(* data[s] = <<"Data", 0>> for a live slot, otherwise <<"NextFree", n>>.          *)
(* reusable is chosen nondeterministically per removal (FALSE models an    *)
(* exhausted generation counter, Stamp.tla).                               *)
(*                                                                         *)
(* Checked: the concrete list refines the abstract FIFO sequence `avail`   *)
(* of IndexTree.tla (C07): the chain from first through the NextFree       *)
(* pointers is exactly avail - no cycle, no lost and no doubled slot -,    *)
(* last is its final element, only removed slots are linked and no live    *)
(* slot's payload is ever overwritten by a list pointer (C08).             *)
(***************************************************************************)
EXTENDS Naturals, Sequences, FiniteSets, TLC

CONSTANT NSlots
NONE == 0

VARIABLES data,      \* data[s] \in {<<"Data", 0>>} \cup {<<"NextFree", n>>}
          first, last,
          alloc,     \* slots 1..alloc exist
          avail,     \* abstract: reusable removed slots, oldest first
          retired    \* abstract: removed, never reusable
fvars == <<data, first, last, alloc, avail, retired>>

DATA == <<"Data", 0>>
Live(s) == s <= alloc /\ data[s] = DATA
SeqRng(q) == { q[i] : i \in DOMAIN q }

Init == data = [s \in 1..NSlots |-> DATA] /\ first = NONE /\ last = NONE /\ alloc = 0
        /\ avail = <<>> /\ retired = {}

\* arena.rs :: free_node
FreeNode(s, reusable) ==
  /\ Live(s)
  /\ LET d1 == [data EXCEPT ![s] = <<"NextFree", NONE>>] IN
     IF reusable
     THEN IF last # NONE
          THEN /\ data' = [d1 EXCEPT ![last] = <<"NextFree", s>>]
               /\ last' = s /\ first' = first
          ELSE /\ data' = d1 /\ first' = s /\ last' = s
     ELSE data' = d1 /\ UNCHANGED <<first, last>>
  /\ avail' = IF reusable THEN Append(avail, s) ELSE avail
  /\ retired' = IF reusable THEN retired ELSE retired \cup {s}
  /\ UNCHANGED alloc

\* arena.rs :: new_node with pop_front_free_node
NewNode ==
  IF first # NONE
  THEN /\ data[first][1] = "NextFree"                       \* else unreachable!()
       /\ LET nf == data[first][2] IN
            /\ first' = nf
            /\ last' = IF nf = NONE THEN NONE ELSE last
       /\ data' = [data EXCEPT ![first] = DATA]           \* node.reuse(data)
       /\ avail' = Tail(avail)
       /\ UNCHANGED <<alloc, retired>>
  ELSE /\ alloc < NSlots
       /\ alloc' = alloc + 1
       /\ UNCHANGED <<data, first, last, avail, retired>>

Next == NewNode \/ \E s \in 1..alloc : \E r \in BOOLEAN : FreeNode(s, r)
Spec == Init /\ [][Next]_fvars

RECURSIVE Chain(_, _)
Chain(s, fuel) == IF s = NONE \/ fuel = 0 THEN <<>>
                  ELSE <<s>> \o (IF data[s] = DATA THEN <<>> ELSE Chain(data[s][2], fuel - 1))

Refines ==
  /\ Chain(first, NSlots + 1) = avail                      \* exactly the reusable slots, in order, no cycle
  /\ last = (IF avail = <<>> THEN NONE ELSE avail[Len(avail)])
  /\ (first = NONE) <=> (last = NONE)
  /\ \A s \in SeqRng(avail) : data[s] # DATA             \* only removed slots are linked
  /\ \A i, j \in DOMAIN avail : i # j => avail[i] # avail[j]
  /\ \A s \in 1..alloc : data[s] = DATA \/ s \in SeqRng(avail) \/ s \in retired    \* no slot is lost
  /\ (first # NONE => data[first] # DATA)

\* C07 at this level: the slot an allocation returns holds no live node
AllocFresh == [][ (first # NONE /\ avail' = Tail(avail) /\ avail # <<>>) => (data[first] # DATA /\ data'[first] = DATA) ]_fvars
=============================================================================
