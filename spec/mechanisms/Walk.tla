-------------------------------- MODULE Walk --------------------------------
(***************************************************************************)
(* Mechanism specification of the single-ended iterators of traverse.rs as *)
(* cursor machines over a fixed forest: Ancestors, Predecessors,           *)
(* PrecedingSiblings/FollowingSiblings/Children (forward), ReverseChildren,*)
(* Traverse, ReverseTraverse (stepping with NodeEdge::next_traverse /      *)
(* prev_traverse and the stop rule at End(root) / Start(root)) and         *)
(* Descendants (= Traverse filtered for Start edges).                      *)
(*                                                                         *)
(* A behaviour picks, in Init, any ordered forest with at most MaxNodes    *)
(* nodes (one top-level chain; nodes numbered in pre-order - numbering is  *)
(* irrelevant to the iterators), any start node and any iterator, then     *)
(* steps the cursor.  TLC checks                                           *)
(*   safety   at every step the output is a prefix of the declarative      *)
(*            sequence of Observers.tla, and when the cursor is exhausted  *)
(*            the output IS that sequence (C09); no element twice (C02)    *)
(*   liveness <>done under weak fairness of the step (C02: every iterator  *)
(*            is finite) - checked without any state constraint            *)
(*   edges    NextEdge/PrevEdge computed by the stepping functions agree   *)
(*            with the declarative definition and are inverses (C09)       *)
(***************************************************************************)
EXTENDS WalkOps

CONSTANT MaxNodes

VARIABLES f,      \* the forest (fixed during a behaviour)
          kind,   \* which iterator
          start,  \* start node
          cur,    \* cursor: a node, an edge <<k, x>>, or NONE / <<0,0>>
          out,    \* elements yielded so far
          done
wvars == <<f, kind, start, cur, out, done>>

Forests == ForestsUpTo(MaxNodes)

Init == /\ f \in Forests
        /\ kind \in Kinds
        /\ start \in DOMAIN f.kids
        /\ cur = FirstCursor(f, kind, start)
        /\ out = <<>>
        /\ done = FALSE

Step == /\ ~done
        /\ IF Exhausted(kind, cur)
           THEN done' = TRUE /\ UNCHANGED <<cur, out>>
           ELSE out' = out \o Yield(kind, cur) /\ cur' = Advance(f, kind, start, cur) /\ done' = FALSE
        /\ UNCHANGED <<f, kind, start>>

Spec == Init /\ [][Step]_wvars /\ WF_wvars(Step)

OutputOK   == IsPrefixOf(out, Expected(f, kind, start)) /\ (done => out = Expected(f, kind, start))
NoRepeat   == NoDup(out)
Terminates == <>done

\* next_traverse / prev_traverse against the declarative successor / predecessor
AllEdges == { StartE(x) : x \in DOMAIN f.kids } \cup { EndE(x) : x \in DOMAIN f.kids }
EdgesOK  == \A e \in AllEdges :
              /\ NextTraverse(f, e) = NextEdge(f, e)
              /\ PrevTraverse(f, e) = PrevEdge(f, e)
              /\ NextTraverse(f, e) # NOEDGE => PrevTraverse(f, NextTraverse(f, e)) = e
              /\ PrevTraverse(f, e) # NOEDGE => NextTraverse(f, PrevTraverse(f, e)) = e
=============================================================================
