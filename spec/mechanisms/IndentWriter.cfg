\* MODULE mechanisms/IndentWriter.tla
INIT Init
NEXT Next
CONSTANTS
  MaxNodes = 4
  MaxLines = 3
