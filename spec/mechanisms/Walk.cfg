\* MODULE mechanisms/Walk.tla
SPECIFICATION Spec
CONSTANT MaxNodes = 5
INVARIANTS OutputOK NoRepeat EdgesOK
PROPERTIES Terminates
CHECK_DEADLOCK FALSE
