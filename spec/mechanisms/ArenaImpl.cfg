\* MODULE mechanisms/ArenaImpl.tla
SPECIFICATION Spec
CONSTANTS
  NMax = 3
  MAXSTAMP = 2
CHECK_DEADLOCK FALSE
INVARIANTS StateOK InsRefines DetachRefines RemoveRefines RemoveSubtreeRefines NewRefines AppendValueRefines StaleIdLaws
