------------------------------ MODULE WalkOps -------------------------------
(***************************************************************************)
(* The stepping functions of traverse.rs as pure operators of a forest g:  *)
(* cursor initialisation, one step, exhaustion test and the element        *)
(* yielded, for each of the nine iterators; shared by Walk.tla (one        *)
(* iterator, with liveness) and Readers.tla (N concurrent readers).        *)
(***************************************************************************)
EXTENDS Observers, TLC

Kinds == {"ancestors", "predecessors", "preceding", "following", "children", "rchildren",
          "traverse", "rtraverse", "descendants"}
EdgeKinds == {"traverse", "rtraverse", "descendants"}
NOEDGE == <<0, 0>>

\* ordered forests with k nodes in pre-order numbering = parent vectors (0 = top level)
RECURSIVE PathUp(_, _)
PathUp(p, j) == IF j = 0 THEN <<0>> ELSE <<j>> \o PathUp(p, p[j])
IsPre(p)   == \A i \in DOMAIN p : p[i] \in (IF i = 1 THEN {0} ELSE Rng(PathUp(p, i - 1)))
Vectors(k) == { p \in [1..k -> 0..(k - 1)] : IsPre(p) }
KidsOfV(p, x) == LET S == { i \in DOMAIN p : p[i] = x } IN
                 [n \in 1..Cardinality(S) |-> CHOOSE i \in S : Cardinality({ j \in S : j < i }) = n - 1]
ForestOf(p) == [kids |-> [x \in 1..Len(p) |-> KidsOfV(p, x)],
                tops |-> IF Len(p) = 0 THEN {} ELSE {KidsOfV(p, 0)}]
ForestsUpTo(m) == { ForestOf(p) : p \in UNION { Vectors(k) : k \in 1..m } }

NextTraverse(g, e) ==      \* NodeEdge::next_traverse
  IF e[1] = 1 THEN (IF FirstOf(g, e[2]) # NONE THEN StartE(FirstOf(g, e[2])) ELSE EndE(e[2]))
  ELSE IF NextOf(g, e[2]) # NONE THEN StartE(NextOf(g, e[2]))
  ELSE IF ParentOf(g, e[2]) # NONE THEN EndE(ParentOf(g, e[2])) ELSE NOEDGE
PrevTraverse(g, e) ==      \* NodeEdge::prev_traverse
  IF e[1] = 2 THEN (IF LastOf(g, e[2]) # NONE THEN EndE(LastOf(g, e[2])) ELSE StartE(e[2]))
  ELSE IF PrevOf(g, e[2]) # NONE THEN EndE(PrevOf(g, e[2]))
  ELSE IF ParentOf(g, e[2]) # NONE THEN StartE(ParentOf(g, e[2])) ELSE NOEDGE

FirstCursor(g, k, s) ==
  CASE k \in {"ancestors", "predecessors", "preceding", "following"} -> s
    [] k = "children"  -> FirstOf(g, s)
    [] k = "rchildren" -> LastOf(g, s)
    [] k \in {"traverse", "descendants"} -> StartE(s)
    [] k = "rtraverse" -> EndE(s)

Advance(g, k, s, c) ==
  CASE k = "ancestors"    -> ParentOf(g, c)
    [] k = "predecessors" -> IF PrevOf(g, c) # NONE THEN PrevOf(g, c) ELSE ParentOf(g, c)
    [] k = "preceding"    -> PrevOf(g, c)
    [] k = "following"    -> NextOf(g, c)
    [] k = "children"     -> NextOf(g, c)
    [] k = "rchildren"    -> PrevOf(g, c)
    [] k \in {"traverse", "descendants"} -> IF c = EndE(s) THEN NOEDGE ELSE NextTraverse(g, c)
    [] k = "rtraverse"    -> IF c = StartE(s) THEN NOEDGE ELSE PrevTraverse(g, c)

Exhausted(k, c) == IF k \in EdgeKinds THEN c = NOEDGE ELSE c = NONE
Yield(k, c) == IF k = "descendants" THEN (IF c[1] = 1 THEN <<c[2]>> ELSE <<>>) ELSE <<c>>

Expected(g, k, s) ==
  CASE k = "ancestors"    -> AncSeq(g, s)
    [] k = "predecessors" -> PredSeq(g, s)
    [] k = "preceding"    -> PrecSeq(g, s)
    [] k = "following"    -> FollSeq(g, s)
    [] k = "children"     -> ChildSeq(g, s)
    [] k = "rchildren"    -> RevChildSeq(g, s)
    [] k = "traverse"     -> EdgeSeq(g, s)
    [] k = "rtraverse"    -> RevEdgeSeq(g, s)
    [] k = "descendants"  -> PreSeq(g, s)

IsPrefixOf(a, b) == Len(a) <= Len(b) /\ SubSeq(b, 1, Len(a)) = a
=============================================================================
