\* MODULE mechanisms/Stamp.tla
SPECIFICATION Spec
CONSTANTS
  NSlots = 3
  MAXSTAMP = 3
  Variant = "fixed"
  KeepIssued = TRUE
CHECK_DEADLOCK FALSE
INVARIANTS TypeOK StampsGrow IsRemovedLaw FreeOK
PROPERTIES NoReissue
