\* MODULE mechanisms/CloneFrom.tla
SPECIFICATION Spec
CONSTANT NSlots = 3
CONSTANT Variant = "forget_stamp"
CHECK_DEADLOCK FALSE
INVARIANTS CloneEqual CloneSound
CONSTRAINT Bounded
