---------------------------- MODULE IndentWriter ----------------------------
(***************************************************************************)
(* Mechanism specification of debug_pretty_print.rs: the IndentWriter      *)
(* (line_state, the stack of IndentedBlockState {is_last_item,             *)
(* is_first_line}, open_item / close_item / write_str) driven by the       *)
(* traversal loop of Display::fmt / prepare_next_node_printing.            *)
(*                                                                         *)
(* Output is modelled at the granularity of 4-column indent cells: when a  *)
(* line receives content the writer has emitted, for every open indent     *)
(* level, the cell as_str() of its current state                           *)
(*    (last, first) = (F,T) "|-- " TEE   (F,F) "|   " BAR                  *)
(*                    (T,T) "`-- " ELL   (T,F) "    " BLANK                *)
(* (the split into leading part / trailing spaces / pending whitespace     *)
(* only decides whether blanks are written before or after it is known     *)
(* that content follows; payload renderings are non-empty and a "\n"       *)
(* counts as content, so every started line is completed).                 *)
(*                                                                         *)
(* TLC checks, for every ordered forest up to MaxNodes nodes, every start  *)
(* node and every assignment of 1..MaxLines lines to the nodes, that the   *)
(* lines this machine writes are exactly Printer!Rendering (C14).          *)
(***************************************************************************)
EXTENDS WalkOps, Printer

CONSTANTS MaxNodes, MaxLines

Cell(ind) == IF ind.last THEN (IF ind.first THEN "ELL" ELSE "BLANK")
                         ELSE (IF ind.first THEN "TEE" ELSE "BAR")

\* writer state: ls = line_state, ind = indent stack, out = completed lines
W0 == [ls |-> "BeforeIndent", ind |-> <<>>, out |-> <<>>]

\* one line of content of node x (its k-th line), newline = whether "\n" follows in the same write
WriteLine(w, x, k, newline) ==
  LET n    == Len(w.ind)
      line == [g    |-> [i \in 1..(IF n = 0 THEN 0 ELSE n - 1) |-> Cell(w.ind[i])],
               lead |-> IF n = 0 THEN "ROOT" ELSE Cell(w.ind[n]),
               node |-> x, k |-> k]
      ind2 == IF n > 0 /\ newline THEN [w.ind EXCEPT ![n].first = FALSE] ELSE w.ind
  IN  [ls  |-> IF newline THEN "BeforeIndent" ELSE "Content",
       ind |-> ind2,
       out |-> Append(w.out, line)]

\* write!(writer, "{}", data) for a payload of nl lines: "l1\nl2\n...ln"
RECURSIVE WriteData(_, _, _, _)
WriteData(w, x, k, nl) == IF k > nl THEN w ELSE WriteData(WriteLine(w, x, k, k < nl), x, k + 1, nl)

OpenItem(w, isLast) ==
  LET n    == Len(w.ind)
      ind1 == IF n > 0 THEN [w.ind EXCEPT ![n].first = FALSE] ELSE w.ind
  IN  [w EXCEPT !.ls = "BeforeIndent",                     \* (a pending "\n" is written if a line was open)
                !.ind = Append(ind1, [last |-> isLast, first |-> TRUE])]
CloseItem(w) == [w EXCEPT !.ind = SubSeq(@, 1, Len(@) - 1)]

\* Display::fmt: root first, then prepare_next_node_printing over the remaining edges
RECURSIVE Drive(_, _, _, _)
Drive(g, w, edges, nl) ==
  IF edges = <<>> THEN w
  ELSE LET e == Head(edges) IN
       IF e[1] = 1
       THEN Drive(g, WriteData(OpenItem(w, NextOf(g, e[2]) = NONE), e[2], 1, nl[e[2]]), Tail(edges), nl)
       ELSE IF w.ind = <<>> THEN w                          \* close_item() fails: the root was closed
            ELSE Drive(g, CloseItem(w), Tail(edges), nl)

Printed(g, start, nl) ==
  LET es == EdgeSeq(g, start) IN
  Drive(g, WriteData(W0, start, 1, nl[start]), Tail(es), nl).out

Refines ==
  \A g \in ForestsUpTo(MaxNodes) : \A s \in DOMAIN g.kids :
     \A nl \in [DOMAIN g.kids -> 1..MaxLines] :
        Printed(g, s, nl) = Rendering(g, s, nl)

ASSUME Refines
ASSUME PrintT(<<"INDENTWRITER-CASES", Cardinality(ForestsUpTo(MaxNodes))>>)

VARIABLE x
Init == x = 0
Next == x' = x
=============================================================================
