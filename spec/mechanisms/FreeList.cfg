\* MODULE mechanisms/FreeList.tla
SPECIFICATION Spec
CONSTANT NSlots = 5
CHECK_DEADLOCK FALSE
INVARIANTS Refines
PROPERTIES AllocFresh
