\* MODULE mechanisms/Links.tla
SPECIFICATION Spec
CONSTANTS
  N = 5
  Variant = "fixed"
CHECK_DEADLOCK FALSE
INVARIANTS StateGood InsRefines DetachRefines RemoveRefines RemoveSubtreeRefines
