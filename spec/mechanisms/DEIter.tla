------------------------------- MODULE DEIter -------------------------------
(***************************************************************************)
(* Mechanism specification of the double-ended iterators of traverse.rs    *)
(* (macro new_iterator!, inner = DoubleEndedIter): a head cursor and a     *)
(* tail cursor walking towards each other over a sibling chain.            *)
(*                                                                         *)
(* The chain is 1..n in forward order of the list (children order); the    *)
(* node links are those of a chain: prev(i) = i-1, next(i) = i+1 (NONE at  *)
(* the ends); hasParent says whether the chain hangs under a parent        *)
(* (children / siblings with a parent) or is a top-level chain.            *)
(*                                                                         *)
(* Checked by TLC (ASSUME, no behaviour needed - the machine is a pure     *)
(* function of the pull word): for every n <= MaxLen, every start          *)
(* position, both hasParent values and every pull word of length <= n+2    *)
(* the cursor machine yields exactly Observers!Pulls(forward sequence, w), *)
(* i.e. it refines the abstract deque of C10.  Variant "pinned" is the     *)
(* initialisation of the commit the work started from (tail taken from the *)
(* parent only): TLC reports defect D6 for hasParent = FALSE.              *)
(***************************************************************************)
EXTENDS Observers, TLC

CONSTANTS MaxLen, Variant

NextL(n, i) == IF i = NONE \/ i >= n THEN NONE ELSE i + 1
PrevL(n, i) == IF i = NONE \/ i <= 1 THEN NONE ELSE i - 1

\* dir = "fwd": the `next` closure is next_sibling and `next_back` is previous_sibling
\* (Children, FollowingSiblings); dir = "bwd": the other way round (PrecedingSiblings)
Fwd(n, dir, i) == IF dir = "fwd" THEN NextL(n, i) ELSE PrevL(n, i)
Bwd(n, dir, i) == IF dir = "fwd" THEN PrevL(n, i) ELSE NextL(n, i)

\* one pull of the machine: returns <<yielded, head', tail'>>
StepF(n, dir, head, tail) ==
  IF head # NONE /\ tail # NONE /\ head = tail THEN <<head, NONE, NONE>>
  ELSE IF head # NONE THEN <<head, Fwd(n, dir, head), tail>>
  ELSE <<NONE, head, tail>>
StepB(n, dir, head, tail) ==
  IF head # NONE /\ tail # NONE /\ head = tail THEN <<head, NONE, NONE>>
  ELSE IF tail # NONE THEN <<tail, head, Bwd(n, dir, tail)>>
  ELSE <<NONE, head, tail>>

RECURSIVE Run(_, _, _, _, _)
Run(n, dir, w, head, tail) ==
  IF w = <<>> THEN <<>>
  ELSE LET r == IF Head(w) = "F" THEN StepF(n, dir, head, tail) ELSE StepB(n, dir, head, tail)
       IN  <<r[1]>> \o Run(n, dir, Tail(w), r[2], r[3])

\* the three constructors -----------------------------------------------------
\* Children::new(arena, node): head = first_child, tail = last_child
RunChildren(n, w) == Run(n, "fwd", w, IF n = 0 THEN NONE ELSE 1, IF n = 0 THEN NONE ELSE n)
\* FollowingSiblings::new(arena, node = position i): head = node,
\* tail = parent.last_child; without parent: walk next_sibling to the end ("fixed") or None ("pinned")
RunFollowing(n, i, hasParent, w) ==
  Run(n, "fwd", w, i, IF hasParent \/ Variant # "pinned" THEN n ELSE NONE)
\* PrecedingSiblings::new: head = node, tail = parent.first_child; next = previous_sibling
RunPreceding(n, i, hasParent, w) ==
  Run(n, "bwd", w, i, IF hasParent \/ Variant # "pinned" THEN 1 ELSE NONE)

Words(k)    == [1..k -> {"F", "B"}]
AllWords(n) == UNION {Words(k) : k \in 1..(n + 2)}
Chain(a, b) == [k \in 1..(b - a + 1) |-> a + k - 1]           \* <<a, ..., b>>

ChildrenRefine  == \A n \in 0..MaxLen : \A w \in AllWords(n) : RunChildren(n, w) = Pulls(Chain(1, n), w)
FollowingRefine == \A n \in 1..MaxLen : \A i \in 1..n : \A hp \in BOOLEAN : \A w \in AllWords(n) :
                      RunFollowing(n, i, hp, w) = Pulls(Chain(i, n), w)
PrecedingRefine == \A n \in 1..MaxLen : \A i \in 1..n : \A hp \in BOOLEAN : \A w \in AllWords(n) :
                      RunPreceding(n, i, hp, w) = Pulls(Rev(Chain(1, i)), w)

ASSUME ChildrenRefine
ASSUME FollowingRefine
ASSUME PrecedingRefine
ASSUME PrintT(<<"DEITER-CASES", [n \in 0..MaxLen |-> Cardinality(AllWords(n)) * (1 + 4 * n)]>>)

VARIABLE x
Init == x = 0
Next == x' = x
=============================================================================
