\* MODULE mechanisms/Stamp.tla
SPECIFICATION Spec
CONSTANTS
  NSlots = 1
  MAXSTAMP = 32767
  Variant = "fixed"
  KeepIssued = FALSE
CHECK_DEADLOCK FALSE
INVARIANTS TypeOK StampsGrow FreeOK
PROPERTIES NoReissue
