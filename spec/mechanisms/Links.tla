------------------------------- MODULE Links --------------------------------
(***************************************************************************)
(* Mechanism specification: the link manipulation of indextree as the code *)
(* performs it (relations.rs, siblings_range.rs, id.rs), one operator per  *)
(* function, composed exactly like the public entry points compose them,   *)
(* including the internal ConsistencyError paths and the partial updates   *)
(* that precede them.  Release-build semantics (debug assertions are not   *)
(* modelled).                                                              *)
(*                                                                         *)
(* TLC checks that this mechanism REFINES the abstract forest operators of *)
(* Forest.tla: for every reachable link state and every call,              *)
(*   - the result class is the one the abstract specification demands,     *)
(*   - a failing call leaves the links untouched,                          *)
(*   - a succeeding call leaves links whose abstraction Abs(L') equals the *)
(*     abstract operator applied to Abs(L), and that are WellFormed and    *)
(*     Acyclic (here these are NOT true by construction).                  *)
(*                                                                         *)
(* Variant = "pinned" transcribes the commit the verification started      *)
(* from; TLC then produces the defects D1 (insert_before/after of an       *)
(* ancestor), D2 (prepend of the current first child) and D3 (links left   *)
(* by remove_subtree) as counterexamples.  Variant = "fixed" is the        *)
(* current code.  This module is never used for verdicts on the code (a    *)
(* refactoring may legitimately diverge from it); it makes the exhaustive  *)
(* check bite on the algorithm and guards the abstract spec against        *)
(* misreading the code.                                                    *)
(***************************************************************************)
EXTENDS Forest, TLC

CONSTANTS N,        \* number of nodes (all allocated up front, slots 1..N)
          Variant   \* "fixed" | "pinned"

VARIABLES L,        \* L[x] = [parent, prev, next, first, last] as stored in Node<T>
          live      \* nodes not removed
lvars == <<L, live>>
Nodes == 1..N

Ok(M)      == [L |-> M, res |-> "Ok"]
Fail(M, r) == [L |-> M, res |-> r]

(***************************************************************************)
(* relations.rs :: connect_neighbors                                       *)
(***************************************************************************)
ConnectNeighbors(M, parent, previous, next) ==
  LET pf  == IF parent # NONE THEN M[parent].first ELSE NONE
      pl  == IF parent # NONE THEN M[parent].last ELSE NONE
      M1  == IF previous # NONE THEN [M EXCEPT ![previous].next = next] ELSE M
      pf1 == IF previous # NONE THEN (IF pf # NONE THEN pf ELSE previous) ELSE next
      M2  == IF next # NONE THEN [M1 EXCEPT ![next].prev = previous] ELSE M1
      pl1 == IF next # NONE THEN (IF pl # NONE THEN pl ELSE next) ELSE previous
  IN  IF parent # NONE THEN [M2 EXCEPT ![parent].first = pf1, ![parent].last = pl1] ELSE M2

(***************************************************************************)
(* siblings_range.rs :: SiblingsRange::detach_from_siblings                *)
(***************************************************************************)
DetachFromSiblings(M, first, last) ==
  LET parent == M[first].parent
      prevOf == M[first].prev
      nextOf == M[last].next
      M1 == [M EXCEPT ![first].prev = NONE]
      M2 == [M1 EXCEPT ![last].next = NONE]
  IN  ConnectNeighbors(M2, parent, prevOf, nextOf)

(***************************************************************************)
(* DetachedSiblingsRange::rewrite_parents: walks first -> next -> ...      *)
(* Err(ParentChildLoop) when a node of the range is the new parent; the    *)
(* nodes visited before keep their rewritten parent.                       *)
(***************************************************************************)
RECURSIVE RewriteFrom(_, _, _, _)
RewriteFrom(M, child, newParent, fuel) ==
  IF child = NONE \/ fuel = 0 THEN Ok(M)
  ELSE IF child = newParent THEN Fail(M, "ParentChildLoop")
  ELSE RewriteFrom([M EXCEPT ![child].parent = newParent], M[child].next, newParent, fuel - 1)
RewriteParents(M, first, newParent) == RewriteFrom(M, first, newParent, N + 1)

(***************************************************************************)
(* DetachedSiblingsRange::transplant                                       *)
(***************************************************************************)
Transplant(M, first, last, parent, previous, next) ==
  LET r == RewriteParents(M, first, parent) IN
  IF r.res # "Ok" THEN r
  ELSE Ok(ConnectNeighbors(ConnectNeighbors(r.L, parent, previous, first), parent, last, next))

(***************************************************************************)
(* relations.rs :: insert_with_neighbors                                   *)
(***************************************************************************)
InsertWithNeighbors(M, new, parent, previous, next) ==
  IF previous = new \/ next = new THEN Fail(M, "SiblingsLoop")
  ELSE IF parent = new THEN Fail(M, "ParentChildLoop")
  ELSE LET r == Transplant(DetachFromSiblings(M, new, new), new, new, parent, previous, next) IN
       IF r.res = "Ok" THEN r ELSE Fail(r.L, "Panic")    \* .expect("Should never fail ...")

(***************************************************************************)
(* id.rs :: NodeId::detach                                                 *)
(***************************************************************************)
DetachI(M, x) ==
  LET r == RewriteParents(DetachFromSiblings(M, x, x), x, NONE) IN r.L   \* None as parent never fails

RECURSIVE AncSetI(_, _, _)
AncSetI(M, x, fuel) == IF x = NONE \/ fuel = 0 THEN {} ELSE {x} \cup AncSetI(M, M[x].parent, fuel - 1)
IsAncestorOrSelf(M, b, a) == b \in AncSetI(M, a, N + 1)      \* self.ancestors(arena).any(|x| x == b)

\* .expect("Should never fail") on a ConsistencyError
Expect(r) == IF r.res = "Ok" THEN r ELSE Fail(r.L, "Panic")

CheckedAppend(M, lv, self, new) ==
  IF new = self THEN Fail(M, "Self")
  ELSE IF self \notin lv \/ new \notin lv THEN Fail(M, "Removed")
  ELSE IF IsAncestorOrSelf(M, new, self) THEN Fail(M, "Ancestor")
  ELSE LET M1 == DetachI(M, new) IN
       Expect(InsertWithNeighbors(M1, new, self, M1[self].last, NONE))

CheckedPrepend(M, lv, self, new) ==
  IF new = self THEN Fail(M, "Self")
  ELSE IF self \notin lv \/ new \notin lv THEN Fail(M, "Removed")
  ELSE IF IsAncestorOrSelf(M, new, self) THEN Fail(M, "Ancestor")
  ELSE LET M1 == IF Variant = "pinned" THEN M ELSE DetachI(M, new) IN      \* D2: no detach first
       Expect(InsertWithNeighbors(M1, new, self, NONE, M1[self].first))

CheckedInsertAfter(M, lv, self, new) ==
  IF new = self THEN Fail(M, "Self")
  ELSE IF self \notin lv \/ new \notin lv THEN Fail(M, "Removed")
  ELSE IF Variant # "pinned" /\ IsAncestorOrSelf(M, new, self) THEN Fail(M, "Ancestor")   \* D1: check missing
  ELSE LET M1 == DetachI(M, new) IN
       Expect(InsertWithNeighbors(M1, new, M1[self].parent, self, M1[self].next))

CheckedInsertBefore(M, lv, self, new) ==
  IF new = self THEN Fail(M, "Self")
  ELSE IF self \notin lv \/ new \notin lv THEN Fail(M, "Removed")
  ELSE IF Variant # "pinned" /\ IsAncestorOrSelf(M, new, self) THEN Fail(M, "Ancestor")
  ELSE LET M1 == DetachI(M, new) IN
       Expect(InsertWithNeighbors(M1, new, M1[self].parent, M1[self].prev, self))

(***************************************************************************)
(* id.rs :: NodeId::remove (the free list is a separate mechanism)         *)
(***************************************************************************)
RemoveI(M, x) ==
  LET parent == M[x].parent  previous == M[x].prev  next == M[x].next
      first == M[x].first    last == M[x].last
      M1 == DetachI(M, x)
  IN  IF first # NONE /\ last # NONE
      THEN Expect(Transplant(DetachFromSiblings(M1, first, last), first, last, parent, previous, next))
      ELSE Ok(M1)

(***************************************************************************)
(* id.rs :: NodeId::remove_subtree.  Returns the links and the set freed.  *)
(***************************************************************************)
RECURSIVE WalkFixed(_, _, _, _)
\* "fixed": free on entry, clear first_child when descending, the rest when leaving
WalkFixed(M, cursor, freed, fuel) ==
  IF cursor = NONE \/ fuel = 0 THEN [L |-> M, freed |-> freed]
  ELSE LET fr == freed \cup {cursor} IN
       IF M[cursor].first # NONE
       THEN WalkFixed([M EXCEPT ![cursor].first = NONE], M[cursor].first, fr, fuel - 1)
       ELSE LET nx == M[cursor].next  pa == M[cursor].parent
                M1 == [M EXCEPT ![cursor] = NoLinks]
            IN  WalkFixed(M1, IF nx # NONE THEN nx ELSE pa, fr, fuel - 1)

RECURSIVE UpToSibling(_, _, _)
\* first proper ancestor with a next sibling -> that sibling
UpToSibling(M, x, fuel) ==
  LET p == M[x].parent IN
  IF p = NONE \/ fuel = 0 THEN NONE
  ELSE IF M[p].next # NONE THEN M[p].next ELSE UpToSibling(M, p, fuel - 1)

RECURSIVE WalkPinned(_, _, _, _)
\* "pinned": pre-order walk that frees and leaves every link in place (D3)
WalkPinned(M, cursor, freed, fuel) ==
  IF cursor = NONE \/ fuel = 0 THEN [L |-> M, freed |-> freed]
  ELSE LET nxt == IF M[cursor].first # NONE THEN M[cursor].first
                  ELSE IF M[cursor].next # NONE THEN M[cursor].next
                  ELSE UpToSibling(M, cursor, N + 1)
       IN  WalkPinned(M, nxt, freed \cup {cursor}, fuel - 1)

RemoveSubtreeI(M, x) ==
  LET M1 == DetachI(M, x) IN
  IF Variant = "pinned" THEN WalkPinned(M1, x, {}, 3 * N + 3) ELSE WalkFixed(M1, x, {}, 3 * N + 3)

(***************************************************************************)
(* Abstraction: the ordered forest a link state stands for                 *)
(***************************************************************************)
RECURSIVE ChainFrom(_, _, _)
ChainFrom(M, x, fuel) == IF x = NONE \/ fuel = 0 THEN <<>> ELSE <<x>> \o ChainFrom(M, M[x].next, fuel - 1)
Abs(M, lv) ==
  [kids |-> [p \in Nodes |-> IF p \in lv THEN ChainFrom(M, M[p].first, N) ELSE <<>>],
   tops |-> {ChainFrom(M, x, N) : x \in {y \in lv : M[y].parent = NONE /\ M[y].prev = NONE}}]

(***************************************************************************)
(* What the abstract specification demands (IndexTree.tla: Reasons, Step)  *)
(***************************************************************************)
ReasonsA(g, lv, a, b) ==
  (IF a = b THEN {"Self"} ELSE {}) \cup
  (IF a \notin lv \/ b \notin lv THEN {"Removed"} ELSE {}) \cup
  (IF a \in lv /\ b \in lv /\ a # b /\ b \in ProperAnc(g, a) THEN {"Ancestor"} ELSE {})

InsOps == {"append", "prepend", "insert_after", "insert_before"}
ImplIns(M, lv, op, a, b) ==
  CASE op = "append"        -> CheckedAppend(M, lv, a, b)
    [] op = "prepend"       -> CheckedPrepend(M, lv, a, b)
    [] op = "insert_after"  -> CheckedInsertAfter(M, lv, a, b)
    [] op = "insert_before" -> CheckedInsertBefore(M, lv, a, b)
AbsIns(g, op, a, b) ==
  CASE op = "append"        -> AppendChild(g, a, b)
    [] op = "prepend"       -> PrependChild(g, a, b)
    [] op = "insert_after"  -> InsertAfter(g, a, b)
    [] op = "insert_before" -> InsertBefore(g, a, b)

Good(M, lv) == WellFormed(M, lv) /\ Acyclic(M, lv) /\ Bare(M, lv)

\* refinement of every call in the current state
InsRefines ==
  \A op \in InsOps : \A a, b \in Nodes :
     LET g == Abs(L, live)
         R == ReasonsA(g, live, a, b)
         r == ImplIns(L, live, op, a, b)
     IN  IF R # {} THEN r.res \in R /\ r.L = L
         ELSE r.res = "Ok" /\ Good(r.L, live) /\ Abs(r.L, live) = AbsIns(g, op, a, b)
DetachRefines ==
  \A x \in live : LET M == DetachI(L, x) IN Good(M, live) /\ Abs(M, live) = Detach(Abs(L, live), x)
RemoveRefines ==
  \A x \in live : LET r == RemoveI(L, x)
                      M == r.L                     \* free_node does not touch links
                  IN  r.res = "Ok" /\ Good(M, live \ {x}) /\ Abs(M, live \ {x}) = RemoveOne(Abs(L, live), x)
RemoveSubtreeRefines ==
  \A x \in live : LET r == RemoveSubtreeI(L, x)
                      D == Desc(Abs(L, live), x)
                  IN  r.freed = D /\ Good(r.L, live \ D) /\ Abs(r.L, live \ D) = RemoveTree(Abs(L, live), x)

StateGood == Good(L, live) /\ Partitioned(Abs(L, live), live)

(***************************************************************************)
(* Behaviour: start with N parentless nodes, apply any call                *)
(***************************************************************************)
Init == L = [x \in Nodes |-> NoLinks] /\ live = Nodes
Next ==
  \/ \E op \in InsOps : \E a, b \in Nodes :
        LET r == ImplIns(L, live, op, a, b) IN r.res = "Ok" /\ L' = r.L /\ live' = live
  \/ \E x \in live : L' = DetachI(L, x) /\ live' = live
  \/ \E x \in live : LET r == RemoveI(L, x) IN r.res = "Ok" /\ L' = r.L /\ live' = live \ {x}
  \/ \E x \in live : LET r == RemoveSubtreeI(L, x) IN L' = r.L /\ live' = live \ r.freed
Spec == Init /\ [][Next]_lvars
=============================================================================
