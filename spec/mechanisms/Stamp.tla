------------------------------- MODULE Stamp --------------------------------
(***************************************************************************)
(* Mechanism specification of the generation stamps (id.rs: NodeStamp,     *)
(* arena.rs: free_node / new_node, node.rs: reuse) for a few slots.        *)
(*                                                                         *)
(*   stamp >= 0  live;  stamp < 0  removed                                 *)
(*   as_removed: s -> -s-1          ("pinned": i16::MAX -> -i16::MAX)      *)
(*   reuseable:  s > MIN            (MIN = -MAXSTAMP-1)                    *)
(*   reuse:      s -> -s                                                   *)
(*   NodeId = <<slot, stamp at issue>>;  id.is_removed <=> stamp[slot] #   *)
(*   id.stamp                                                              *)
(*                                                                         *)
(* MAXSTAMP is a constant: small values let TLC reach the end of the       *)
(* counter within a few steps with several slots (every interleaving);     *)
(* the real value 32767 is checked for one slot.  Checked: the mechanism   *)
(* refines the abstract rule of IndexTree.tla / C06 / C07 - every id       *)
(* issued is new, is_removed(id) is false exactly while the id is the      *)
(* live occupant, a slot is retired only after MAXSTAMP reuses, never      *)
(* handed out while retired.  KeepIssued = FALSE replaces the history set  *)
(* of issued ids by the per-slot maximum (stamps are issued in increasing  *)
(* order - checked as StampsGrow), which keeps the real-MAXSTAMP run small.*)
(***************************************************************************)
EXTENDS Naturals, Integers, FiniteSets, TLC

CONSTANTS NSlots, MAXSTAMP, Variant, KeepIssued

VARIABLES stamp,    \* stamp[s]: current stamp of slot s (only for allocated slots)
          alloc,    \* number of slots allocated so far
          free,     \* set of slots in the free list
          issued,   \* all ids ever issued (or {} if ~KeepIssued)
          hi,       \* hi[s]: largest stamp issued for slot s
          dead      \* ids that were removed (or {} if ~KeepIssued)
svars == <<stamp, alloc, free, issued, hi, dead>>

MINSTAMP == -MAXSTAMP - 1
AsRemoved(s) == IF Variant = "pinned" /\ s = MAXSTAMP THEN -s ELSE -s - 1
Reuseable(s) == s > MINSTAMP
IsRemovedId(id) == stamp[id[1]] # id[2]
Live(s) == s <= alloc /\ stamp[s] >= 0

Init == /\ stamp = [s \in 1..NSlots |-> 0] /\ alloc = 0 /\ free = {}
        /\ issued = {} /\ dead = {} /\ hi = [s \in 1..NSlots |-> -1]

Issue(s, st) == /\ issued' = IF KeepIssued THEN issued \cup {<<s, st>>} ELSE issued
                /\ hi' = [hi EXCEPT ![s] = IF st > @ THEN st ELSE @]

NewNode ==
  \/ /\ free # {}                       \* pop a free slot (any: the order is FreeList.tla's business)
     /\ \E s \in free :
          /\ stamp' = [stamp EXCEPT ![s] = -@]          \* reuse()
          /\ free' = free \ {s}
          /\ Issue(s, -stamp[s])
          /\ UNCHANGED <<alloc, dead>>
  \/ /\ free = {} /\ alloc < NSlots     \* push a new slot with the default stamp 0
     /\ alloc' = alloc + 1
     /\ Issue(alloc + 1, 0)
     /\ UNCHANGED <<stamp, free, dead>>

Remove(s) ==
  /\ Live(s)
  /\ LET r == AsRemoved(stamp[s]) IN
       /\ stamp' = [stamp EXCEPT ![s] = r]
       /\ free' = IF Reuseable(r) THEN free \cup {s} ELSE free
  /\ dead' = IF KeepIssued THEN dead \cup {<<s, stamp[s]>>} ELSE dead
  /\ UNCHANGED <<alloc, issued, hi>>

Next == NewNode \/ \E s \in 1..alloc : Remove(s)
Spec == Init /\ [][Next]_svars

\* ---- properties ------------------------------------------------------------
TypeOK == /\ alloc \in 0..NSlots
          /\ \A s \in 1..NSlots : stamp[s] \in MINSTAMP..MAXSTAMP
          /\ free \subseteq 1..alloc

\* C06: an id handed out was never handed out before
NoReissue == [][ \A s \in 1..NSlots :
                   (s <= alloc' /\ (s > alloc \/ (stamp[s] < 0 /\ stamp'[s] >= 0)))   \* s is (re)issued in this step
                     => /\ (KeepIssued => <<s, stamp'[s]>> \notin issued)
                        /\ stamp'[s] > hi[s] ]_svars
StampsGrow == \A s \in 1..alloc : stamp[s] >= 0 => stamp[s] = hi[s]
\* C06: is_removed(id) is false exactly for the live occupant and true for every dead id
IsRemovedLaw == KeepIssued =>
  /\ \A id \in dead : IsRemovedId(id)
  /\ \A id \in issued \ dead : ~IsRemovedId(id) /\ stamp[id[1]] >= 0
\* C07: a removed slot is reusable unless its counter is exhausted; free slots are removed ones
FreeOK == /\ \A s \in free : stamp[s] < 0 /\ Reuseable(stamp[s])
          /\ \A s \in 1..alloc : (stamp[s] < 0 /\ s \notin free) => stamp[s] = MINSTAMP     \* retired only when exhausted
          /\ \A s \in 1..alloc : stamp[s] = MINSTAMP => hi[s] = MAXSTAMP                     \* i.e. after MAXSTAMP reuses
=============================================================================
