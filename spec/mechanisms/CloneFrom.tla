------------------------------ MODULE CloneFrom ------------------------------
(***************************************************************************)
(* Mechanism specification of `dst.clone_from(&src)` for the arena as it   *)
(* is stored (arena.rs / node.rs): per slot a payload-or-free-list-link    *)
(* and a generation stamp, plus the two ends of the intrusive free list.   *)
(*                                                                         *)
(* C13 says a clone equals its original and the two evolve alike.  With    *)
(* the DERIVED Clone, clone_from is `*dst = src.clone()`: every field is   *)
(* taken from the source, nothing of the destination's earlier life        *)
(* survives.  A hand-written clone_from that reuses the destination's      *)
(* storage has to overwrite EVERY field; the two slips that independent    *)
(* authors delivered (seeded/R6-C07-m1, R6-C11-m2 / R6-C01-m2) are the     *)
(* variants "stale_tail" and "forget_stamp" below.                         *)
(*                                                                         *)
(* State: two arenas `src` and `dst`, each a record                        *)
(*   [data, stamp, first, last, alloc]                                     *)
(* as in FreeList.tla (data[s] = DATA or <<"NextFree", n>>) with a stamp   *)
(* per slot (even = live generation, odd = removed; only equality and      *)
(* parity matter here).  Both arenas live their own lives (Step on one of  *)
(* them); CloneFrom overwrites dst from src; from then on the same steps   *)
(* are applied to both (Both), and they must stay equal and well-formed.   *)
(*                                                                         *)
(* Checked (CloneFrom.cfg, Variant = "derived"): Synced => dst = src, and  *)
(* the free list of dst is a proper chain.  CloneFrom_stale_tail.cfg and   *)
(* CloneFrom_forget_stamp.cfg are expected to FAIL (TLC prints the         *)
(* shortest history); they are the model-level reading of the two seeded   *)
(* changes, not part of any verdict.                                       *)
(***************************************************************************)
EXTENDS Naturals, Sequences, FiniteSets, TLC

CONSTANTS NSlots, Variant
NONE == 0
DATA == <<"Data", 0>>

VARIABLES src, dst, synced
vars == <<src, dst, synced>>

Empty == [data  |-> [s \in 1..NSlots |-> DATA], stamp |-> [s \in 1..NSlots |-> 0],
          first |-> NONE, last |-> NONE, alloc |-> 0]

Live(a, s) == s <= a.alloc /\ a.data[s] = DATA

\* arena.rs :: free_node (every removed slot is reusable here: retirement is Stamp.tla's matter)
FreeNode(a, s) ==
  LET d1 == [a.data EXCEPT ![s] = <<"NextFree", NONE>>]
      st == [a.stamp EXCEPT ![s] = @ + 1]
  IN  IF a.last # NONE
      THEN [a EXCEPT !.data = [d1 EXCEPT ![a.last] = <<"NextFree", s>>], !.stamp = st, !.last = s]
      ELSE [a EXCEPT !.data = d1, !.stamp = st, !.first = s, !.last = s]

\* arena.rs :: new_node with pop_front_free_node / push
CanNew(a)  == a.first # NONE \/ a.alloc < NSlots
NewNode(a) ==
  IF a.first # NONE
  THEN LET nf == a.data[a.first][2] IN
       [a EXCEPT !.data[a.first] = DATA, !.stamp[a.first] = @ + 1,
                 !.first = nf, !.last = IF nf = NONE THEN NONE ELSE a.last]
  ELSE [a EXCEPT !.alloc = @ + 1]

Ops(a) == (IF CanNew(a) THEN {<<"new", 0>>} ELSE {})
          \cup { <<"free", s>> : s \in { t \in 1..a.alloc : Live(a, t) } }
Apply(a, op) == IF op[1] = "new" THEN NewNode(a) ELSE FreeNode(a, op[2])

(***************************************************************************)
(* clone_from: the derived one and the two slips                           *)
(***************************************************************************)
CloneOf(d, s) ==
  CASE Variant = "derived" -> s
    [] Variant = "stale_tail" ->
         \* storage and `first` are copied; `last` only "when the source has a free list at all"
         [s EXCEPT !.last = IF s.first # NONE THEN s.last ELSE d.last]
    [] Variant = "forget_stamp" ->
         \* per slot, links and payload are copied but the stamp of a slot the destination already had is kept
         [s EXCEPT !.stamp = [t \in 1..NSlots |-> IF t <= d.alloc THEN d.stamp[t] ELSE s.stamp[t]]]

Init == src = Empty /\ dst = Empty /\ synced = FALSE

StepSrc   == ~synced /\ \E op \in Ops(src) : src' = Apply(src, op) /\ UNCHANGED <<dst, synced>>
StepDst   == ~synced /\ \E op \in Ops(dst) : dst' = Apply(dst, op) /\ UNCHANGED <<src, synced>>
CloneFrom == ~synced /\ dst' = CloneOf(dst, src) /\ synced' = TRUE /\ UNCHANGED src
Both      == synced /\ \E op \in Ops(src) :
                 /\ src' = Apply(src, op)
                 \* the same call on the copy (if the copy cannot even take the call, it stutters and the invariant shows it)
                 /\ dst' = IF op \in Ops(dst) THEN Apply(dst, op) ELSE dst
                 /\ UNCHANGED synced
Next == StepSrc \/ StepDst \/ CloneFrom \/ Both
Spec == Init /\ [][Next]_vars

RECURSIVE Chain(_, _, _)
Chain(a, s, fuel) == IF s = NONE \/ fuel = 0 THEN <<>>
                     ELSE <<s>> \o (IF a.data[s] = DATA THEN <<>> ELSE Chain(a, a.data[s][2], fuel - 1))
SeqRng(q) == { q[i] : i \in DOMAIN q }

\* the free list is a proper chain of exactly the removed slots, `last` is its end
ListOK(a) ==
  LET c == Chain(a, a.first, NSlots + 1) IN
  /\ SeqRng(c) = { s \in 1..a.alloc : a.data[s] # DATA }
  /\ Len(c) = Cardinality(SeqRng(c))
  /\ a.last = (IF c = <<>> THEN NONE ELSE c[Len(c)])
  /\ \A s \in 1..a.alloc : (a.data[s] = DATA) <=> (a.stamp[s] % 2 = 0)

\* state constraint: a few generations per slot are enough (only equality and parity of stamps matter)
Bounded == \A s \in 1..NSlots : src.stamp[s] <= 4 /\ dst.stamp[s] <= 4

\* C13: after clone_from the copy equals the source and stays equal under the same calls; C07: its free list is sound
CloneEqual == synced => dst = src
CloneSound == ListOK(src) /\ (synced => ListOK(dst))
=============================================================================
