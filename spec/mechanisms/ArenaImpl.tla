----------------------------- MODULE ArenaImpl ------------------------------
(***************************************************************************)
(* The WHOLE arena as the code implements it - one specification joining   *)
(* the three mechanisms that Links.tla, FreeList.tla and Stamp.tla model   *)
(* separately, so that their interaction is covered too:                   *)
(*                                                                         *)
(*   nodes[i] = [parent, prev, next, first, last : NodeId or NONE,         *)
(*               stamp : Int, data : <<"D", v>> | <<"NF", next index>>]    *)
(*   a NodeId is <<index, stamp>>; arena[id] looks at the INDEX only, id   *)
(*   equality (new == self, ancestor tests, loop tests) compares both      *)
(*   firstFree / lastFree: the intrusive FIFO list through removed slots   *)
(*                                                                         *)
(* Every public mutator is transcribed from the source (arena.rs, id.rs,   *)
(* relations.rs, siblings_range.rs, node.rs; release semantics), including *)
(* the generation arithmetic with a small MAXSTAMP so that exhaustion and  *)
(* retirement are reached within a few steps.                              *)
(*                                                                         *)
(* Checked by TLC: REFINEMENT of IndexTree.tla.  For every reachable       *)
(* implementation state M and every valid call c (node arguments = newest  *)
(* ids of slots), Impl(M, c) has a result class allowed by                 *)
(* IndexTree!Step(Abs(M), c) and Abs(Impl(M, c)) = Step(Abs(M), c).st      *)
(* (count, live, forest, reusable slots in order, retired slots,           *)
(* generations, payloads); removed slots have no links; nothing links to a *)
(* removed slot; the free list is exactly avail.                           *)
(*                                                                         *)
(* Beyond the listed properties the module also states what the code does  *)
(* on INVALID use - stale ids of recycled slots - as named deviations      *)
(* (StaleIdLaws): they are documentation of actual behaviour, checked on   *)
(* the model, not demanded of the crate.                                   *)
(***************************************************************************)
EXTENDS Forest, Integers, TLC

CONSTANTS NMax,       \* slots
          MAXSTAMP    \* i16::MAX in the code; small here

VARIABLES nodes, firstFree, lastFree
ivars == <<nodes, firstFree, lastFree>>

NoId == <<0, 0>>
Idx(id) == id[1]
MINSTAMP == -MAXSTAMP - 1
Bare0(v) == [parent |-> NoId, prev |-> NoId, next |-> NoId, first |-> NoId, last |-> NoId, stamp |-> 0, data |-> <<"D", v>>]
IsRem(M, i) == M[i].stamp < 0                          \* Node::is_removed()
CurId(M, i) == <<i, M[i].stamp>>
At(M, id)   == M[Idx(id)]                              \* arena[id]: index only

(***************************************************************************)
(* arena.rs                                                                *)
(***************************************************************************)
\* returns [M, ff, lf, id]
NewNode(M, ff, lf, v) ==
  IF ff # 0
  THEN LET i  == ff
           nf == M[i].data[2]                          \* NextFree(next)
           st == -M[i].stamp                           \* stamp.reuse()
           M1 == [M EXCEPT ![i] = [Bare0(v) EXCEPT !.stamp = st]]
       IN  [M |-> M1, ff |-> nf, lf |-> IF nf = 0 THEN 0 ELSE lf, id |-> <<i, st>>]
  ELSE [M |-> Append(M, Bare0(v)), ff |-> ff, lf |-> lf, id |-> <<Len(M) + 1, 0>>]

\* free_node(id): data := NextFree(None); stamp.as_removed(); append to the list if reuseable
FreeNode(M, ff, lf, id) ==
  LET i  == Idx(id)
      st == -M[i].stamp - 1
      M1 == [M EXCEPT ![i].data = <<"NF", 0>>, ![i].stamp = st]
  IN  IF st > MINSTAMP
      THEN IF lf # 0 THEN [M |-> [M1 EXCEPT ![lf].data = <<"NF", i>>], ff |-> ff, lf |-> i]
                     ELSE [M |-> M1, ff |-> i, lf |-> i]
      ELSE [M |-> M1, ff |-> ff, lf |-> lf]

(***************************************************************************)
(* relations.rs / siblings_range.rs (links are NodeIds)                    *)
(***************************************************************************)
Set(M, id, fld, val) == [M EXCEPT ![Idx(id)][fld] = val]

ConnectNeighbors(M, parent, previous, next) ==
  LET pf  == IF parent # NoId THEN At(M, parent).first ELSE NoId
      pl  == IF parent # NoId THEN At(M, parent).last ELSE NoId
      M1  == IF previous # NoId THEN Set(M, previous, "next", next) ELSE M
      pf1 == IF previous # NoId THEN (IF pf # NoId THEN pf ELSE previous) ELSE next
      M2  == IF next # NoId THEN Set(M1, next, "prev", previous) ELSE M1
      pl1 == IF next # NoId THEN (IF pl # NoId THEN pl ELSE next) ELSE previous
  IN  IF parent # NoId THEN Set(Set(M2, parent, "first", pf1), parent, "last", pl1) ELSE M2

DetachFromSiblings(M, first, last) ==
  LET parent == At(M, first).parent
      prevOf == At(M, first).prev
      nextOf == At(M, last).next
  IN  ConnectNeighbors(Set(Set(M, first, "prev", NoId), last, "next", NoId), parent, prevOf, nextOf)

RECURSIVE RewriteFrom(_, _, _, _)
RewriteFrom(M, child, newParent, fuel) ==
  IF child = NoId \/ fuel = 0 THEN [M |-> M, ok |-> TRUE]
  ELSE IF child = newParent THEN [M |-> M, ok |-> FALSE]               \* ParentChildLoop
  ELSE RewriteFrom(Set(M, child, "parent", newParent), At(M, child).next, newParent, fuel - 1)

Transplant(M, first, last, parent, previous, next) ==
  LET r == RewriteFrom(M, first, parent, NMax + 1) IN
  IF ~r.ok THEN r
  ELSE [M |-> ConnectNeighbors(ConnectNeighbors(r.M, parent, previous, first), parent, last, next), ok |-> TRUE]

InsertWithNeighbors(M, new, parent, previous, next) ==
  IF previous = new \/ next = new \/ parent = new THEN [M |-> M, ok |-> FALSE]
  ELSE Transplant(DetachFromSiblings(M, new, new), new, new, parent, previous, next)

DetachI(M, x) == RewriteFrom(DetachFromSiblings(M, x, x), x, NoId, NMax + 1).M

RECURSIVE AncIds(_, _, _)
AncIds(M, id, fuel) == IF id = NoId \/ fuel = 0 THEN {} ELSE {id} \cup AncIds(M, At(M, id).parent, fuel - 1)

\* [M, res] with res "Ok" | "Self" | "Removed" | "Ancestor" | "Panic"
Checked(M, op, self, new) ==
  IF new = self THEN [M |-> M, res |-> "Self"]
  ELSE IF IsRem(M, Idx(self)) \/ IsRem(M, Idx(new)) THEN [M |-> M, res |-> "Removed"]
  ELSE IF new \in AncIds(M, self, NMax + 1) THEN [M |-> M, res |-> "Ancestor"]
  ELSE LET M1 == DetachI(M, new)
           r  == CASE op = "append"        -> InsertWithNeighbors(M1, new, self, At(M1, self).last, NoId)
                   [] op = "prepend"       -> InsertWithNeighbors(M1, new, self, NoId, At(M1, self).first)
                   [] op = "insert_after"  -> InsertWithNeighbors(M1, new, At(M1, self).parent, self, At(M1, self).next)
                   [] op = "insert_before" -> InsertWithNeighbors(M1, new, At(M1, self).parent, At(M1, self).prev, self)
       IN  [M |-> r.M, res |-> IF r.ok THEN "Ok" ELSE "Panic"]

(***************************************************************************)
(* id.rs: remove / remove_subtree / append_value                           *)
(***************************************************************************)
\* [M, ff, lf, res]
RemoveI(M, ff, lf, x) ==
  LET n  == At(M, x)
      M1 == DetachI(M, x)
      r  == IF n.first # NoId /\ n.last # NoId
            THEN Transplant(DetachFromSiblings(M1, n.first, n.last), n.first, n.last, n.parent, n.prev, n.next)
            ELSE [M |-> M1, ok |-> TRUE]
      fr == FreeNode(r.M, ff, lf, x)
  IN  [M |-> fr.M, ff |-> fr.ff, lf |-> fr.lf, res |-> IF r.ok THEN "Ok" ELSE "Panic"]

RECURSIVE Walk(_, _, _, _, _)
\* remove_subtree: free on entry, clear first_child when descending, the rest when leaving
Walk(M, ff, lf, cursor, fuel) ==
  IF cursor = NoId \/ fuel = 0 THEN [M |-> M, ff |-> ff, lf |-> lf]
  ELSE LET fr == IF ~IsRem(M, Idx(cursor)) THEN FreeNode(M, ff, lf, cursor) ELSE [M |-> M, ff |-> ff, lf |-> lf]
           n  == At(fr.M, cursor)
       IN  IF n.first # NoId
           THEN Walk(Set(fr.M, cursor, "first", NoId), fr.ff, fr.lf, n.first, fuel - 1)
           ELSE LET M1 == [fr.M EXCEPT ![Idx(cursor)].next = NoId, ![Idx(cursor)].parent = NoId,
                                       ![Idx(cursor)].prev = NoId, ![Idx(cursor)].last = NoId]
                IN  Walk(M1, fr.ff, fr.lf, IF n.next # NoId THEN n.next ELSE n.parent, fuel - 1)
RemoveSubtreeI(M, ff, lf, x) == Walk(DetachI(M, x), ff, lf, x, 3 * NMax + 3)

\* [M, ff, lf, res, id]
AppendValueI(M, ff, lf, self, v) ==
  IF IsRem(M, Idx(self)) THEN [M |-> M, ff |-> ff, lf |-> lf, res |-> "Panic", id |-> NoId]
  ELSE LET a == NewNode(M, ff, lf, v)
           r == Transplant(a.M, a.id, a.id, self, At(a.M, self).last, NoId)      \* insert_last_unchecked
       IN  [M |-> r.M, ff |-> a.ff, lf |-> a.lf, res |-> IF r.ok THEN "Ok" ELSE "Panic", id |-> a.id]

(***************************************************************************)
(* Abstraction to the state of IndexTree.tla                               *)
(***************************************************************************)
RECURSIVE ChainIds(_, _, _)
ChainIds(M, id, fuel) == IF id = NoId \/ fuel = 0 THEN <<>> ELSE <<Idx(id)>> \o ChainIds(M, At(M, id).next, fuel - 1)
RECURSIVE FreeChain(_, _, _)
FreeChain(M, i, fuel) == IF i = 0 \/ fuel = 0 THEN <<>> ELSE <<i>> \o FreeChain(M, M[i].data[2], fuel - 1)

LiveOf(M)  == {i \in 1..Len(M) : ~IsRem(M, i)}
AbsForest(M) ==
  [kids |-> [p \in 1..Len(M) |-> IF IsRem(M, p) THEN <<>> ELSE ChainIds(M, M[p].first, NMax)],
   tops |-> {ChainIds(M, CurId(M, x), NMax) : x \in {y \in LiveOf(M) : M[y].parent = NoId /\ M[y].prev = NoId}}]
GenOf(M, i) == IF M[i].stamp >= 0 THEN M[i].stamp ELSE -M[i].stamp - 1      \* number of times the slot was recycled
Abs(M, ff) ==
  LET av == FreeChain(M, ff, NMax + 1) IN
  [count |-> Len(M), live |-> LiveOf(M), f |-> AbsForest(M), avail |-> av,
   retired |-> {i \in 1..Len(M) : IsRem(M, i)} \ Rng(av),
   gen |-> [i \in 1..Len(M) |-> GenOf(M, i)],
   val |-> [i \in 1..Len(M) |-> IF IsRem(M, i) THEN 0 ELSE M[i].data[2]]]

\* the abstract specification, instantiated (history variables and capacity are not modelled here)
A == INSTANCE IndexTree WITH
       MaxSlots <- NMax, GenCap <- MAXSTAMP, RetireMin <- MAXSTAMP, Policy <- "fifo", NVals <- 1, MaxReserve <- 0,
       count <- 0, live <- {}, f <- EmptyForest, avail <- <<>>, retired <- {}, gen <- <<>>, val <- <<>>,
       capLow <- 0, tok <- <<>>, nissued <- 0, path <- <<>>, last <- [res |-> {"Ok"}, drops |-> {}, new |-> 0, capKeep |-> FALSE]

\* the abstract state record Step() works on, from an implementation state
AbsS(M, ff) == LET a == Abs(M, ff) IN
  [count |-> a.count, live |-> a.live, f |-> a.f, avail |-> a.avail, retired |-> a.retired, gen |-> a.gen,
   val |-> a.val, capLow |-> 0, tok |-> [i \in 1..a.count |-> 0], nissued |-> 0]
SameAbs(S, T) == /\ S.count = T.count /\ S.live = T.live /\ S.f = T.f /\ S.avail = T.avail
                 /\ S.retired = T.retired /\ S.gen = T.gen /\ S.val = T.val

(***************************************************************************)
(* Well-formedness of the implementation state                             *)
(***************************************************************************)
LinkIdx(M) == [i \in 1..Len(M) |-> [parent |-> Idx(M[i].parent), prev |-> Idx(M[i].prev), next |-> Idx(M[i].next),
                                    first |-> Idx(M[i].first), last |-> Idx(M[i].last)]]
LinksCurrent(M) ==   \* every link of a live node carries the CURRENT stamp of its target
  \A i \in LiveOf(M) : \A fld \in LinkFields : M[i][fld] # NoId => M[i][fld] = CurId(M, Idx(M[i][fld]))
StateOK ==
  /\ WellFormed(LinkIdx(nodes), LiveOf(nodes)) /\ Acyclic(LinkIdx(nodes), LiveOf(nodes))
  /\ Bare(LinkIdx(nodes), LiveOf(nodes)) /\ NoLinkToRemoved(LinkIdx(nodes), LiveOf(nodes))
  /\ LinksCurrent(nodes)
  /\ Partitioned(AbsForest(nodes), LiveOf(nodes))
  /\ \A i \in 1..Len(nodes) : (nodes[i].data[1] = "D") <=> ~IsRem(nodes, i)
  /\ lastFree = (LET av == FreeChain(nodes, firstFree, NMax + 1) IN IF av = <<>> THEN 0 ELSE av[Len(av)])
  /\ \A i \in 1..Len(nodes) : nodes[i].stamp \in MINSTAMP..MAXSTAMP

(***************************************************************************)
(* Refinement of every valid call                                          *)
(***************************************************************************)
InsOps == {"append", "prepend", "insert_after", "insert_before"}
Ids    == {CurId(nodes, i) : i \in 1..Len(nodes)}          \* newest id of every slot

InsRefines ==
  \A op \in InsOps : \A a, b \in 1..Len(nodes) :
     LET S == AbsS(nodes, firstFree)
         o == A!Step(S, [op |-> op, a |-> a, b |-> b, checked |-> TRUE])
         r == Checked(nodes, op, CurId(nodes, a), CurId(nodes, b))
     IN  /\ r.res \in o.res
         /\ SameAbs(AbsS(r.M, firstFree), o.st)
         /\ r.res # "Ok" => r.M = nodes
DetachRefines ==
  \A a \in LiveOf(nodes) :
     SameAbs(AbsS(DetachI(nodes, CurId(nodes, a)), firstFree), A!Step(AbsS(nodes, firstFree), [op |-> "detach", a |-> a]).st)
RemoveRefines ==
  \A a \in LiveOf(nodes) :
     LET S == AbsS(nodes, firstFree)
         r == RemoveI(nodes, firstFree, lastFree, CurId(nodes, a))
         T == AbsS(r.M, r.ff)
         o == A!Step(S, [op |-> "remove", a |-> a, r |-> T.retired \ S.retired])
     IN  r.res = "Ok" /\ SameAbs(T, o.st) /\ (T.retired \ S.retired) \subseteq A!MayRetire(S, <<a>>)
RemoveSubtreeRefines ==
  \A a \in LiveOf(nodes) :
     LET S == AbsS(nodes, firstFree)
         r == RemoveSubtreeI(nodes, firstFree, lastFree, CurId(nodes, a))
         T == AbsS(r.M, r.ff)
         o == A!Step(S, [op |-> "remove_subtree", a |-> a, r |-> T.retired \ S.retired])
     IN  SameAbs(T, o.st) /\ (T.retired \ S.retired) \subseteq A!MayRetire(S, PreSeq(S.f, a))
NewRefines ==
  (Len(nodes) < NMax \/ firstFree # 0) =>
     LET S == AbsS(nodes, firstFree)
         r == NewNode(nodes, firstFree, lastFree, 1)
         o == A!Step(S, [op |-> "new", a |-> Idx(r.id), v |-> 1])
     IN  Idx(r.id) \in A!NewSlotsP(S, "fifo") /\ SameAbs(AbsS(r.M, r.ff), o.st)
         /\ r.id \notin Ids                                              \* C06: never the newest id of any slot
AppendValueRefines ==
  (Len(nodes) < NMax \/ firstFree # 0) =>
     \A a \in 1..Len(nodes) :
        LET S == AbsS(nodes, firstFree)
            r == AppendValueI(nodes, firstFree, lastFree, CurId(nodes, a), 1)
            o == A!Step(S, [op |-> "append_value", a |-> a, b |-> IF r.res = "Ok" THEN Idx(r.id) ELSE 0, v |-> 1])
        IN  r.res \in o.res /\ SameAbs(AbsS(r.M, r.ff), o.st) /\ (r.res # "Ok" => r.M = nodes)

(***************************************************************************)
(* Named deviations: what the code does with a STALE id (an id of an       *)
(* earlier generation of a slot that has been recycled).  Outside "valid   *)
(* calls" - documentation of actual behaviour, checked on the model only.  *)
(***************************************************************************)
StaleIds == {<<i, s>> : i \in 1..Len(nodes), s \in 0..MAXSTAMP} \ Ids
StaleIdLaws ==
  \A st \in {id \in StaleIds : ~IsRem(nodes, Idx(id)) /\ id[2] < nodes[Idx(id)].stamp} :
     \* (1) a stale id addresses the slot's CURRENT node: inserting it moves the current occupant ...
     /\ \A a \in LiveOf(nodes) \ {Idx(st)} :
          LET r == Checked(nodes, "append", CurId(nodes, a), st) IN
          r.res \in {"Ok", "Ancestor", "Panic"}
          \* ... but the ancestor test compares stamps, so it can be fooled: an Ok result may build a cycle
     \* (2) is_removed(stale) is true although the slot is live
     /\ nodes[Idx(st)].stamp # st[2]

(***************************************************************************)
(* Behaviour                                                               *)
(***************************************************************************)
Init == nodes = <<>> /\ firstFree = 0 /\ lastFree = 0
Next ==
  \/ /\ (Len(nodes) < NMax \/ firstFree # 0)
     /\ LET r == NewNode(nodes, firstFree, lastFree, 1) IN nodes' = r.M /\ firstFree' = r.ff /\ lastFree' = r.lf
  \/ \E op \in InsOps : \E a, b \in 1..Len(nodes) :
        LET r == Checked(nodes, op, CurId(nodes, a), CurId(nodes, b)) IN
        r.res = "Ok" /\ nodes' = r.M /\ UNCHANGED <<firstFree, lastFree>>
  \/ \E a \in LiveOf(nodes) : nodes' = DetachI(nodes, CurId(nodes, a)) /\ UNCHANGED <<firstFree, lastFree>>
  \/ \E a \in LiveOf(nodes) : LET r == RemoveI(nodes, firstFree, lastFree, CurId(nodes, a)) IN
        nodes' = r.M /\ firstFree' = r.ff /\ lastFree' = r.lf
  \/ \E a \in LiveOf(nodes) : LET r == RemoveSubtreeI(nodes, firstFree, lastFree, CurId(nodes, a)) IN
        nodes' = r.M /\ firstFree' = r.ff /\ lastFree' = r.lf
Spec == Init /\ [][Next]_ivars
=============================================================================
