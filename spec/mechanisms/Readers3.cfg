\* MODULE mechanisms/Readers.tla
SPECIFICATION Spec
CONSTANTS
  MaxNodes = 3
  NReaders = 3
CHECK_DEADLOCK FALSE
INVARIANTS SameAsSequential
PROPERTIES ForestNeverWritten AllFinish
