\* MODULE mechanisms/DEIter.tla
INIT Init
NEXT Next
CONSTANTS
  MaxLen = 6
  Variant = "fixed"
