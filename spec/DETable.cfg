\* MODULE DETable.tla
INIT Init
NEXT Next
CONSTANT MaxLen = 5
