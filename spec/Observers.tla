----------------------------- MODULE Observers ------------------------------
(***************************************************************************)
(* Declarative meaning of every read-only operation of indextree on an     *)
(* ordered forest (properties C09, C10, C11 - the expected output of each  *)
(* iterator and lookup).  Nothing here steps a cursor: each sequence is    *)
(* defined directly from the forest.  The operational cursor machines of   *)
(* the implementation live in mechanisms/Walk.tla and mechanisms/DEIter.tla*)
(* and are model-checked to agree with these definitions.                  *)
(***************************************************************************)
EXTENDS Forest

\* edges are pairs <<kind, node>> with kind 1 = Start, 2 = End
StartE(x) == <<1, x>>
EndE(x)   == <<2, x>>

\* ancestors(): the node, then its parent, grand-parent, ...  (AncSeq in Forest)

\* predecessors(): the node, then repeatedly previous sibling, else parent
RECURSIVE PredSeq(_, _)
PredSeq(f, x) == LET n == IF PrevOf(f, x) # NONE THEN PrevOf(f, x) ELSE ParentOf(f, x)
                 IN  IF n = NONE THEN <<x>> ELSE <<x>> \o PredSeq(f, n)

\* preceding_siblings(): the node, then its earlier siblings, nearest first
PrecSeq(f, x) == Rev(SubSeq(ListOf(f, x), 1, PosOf(f, x)))
\* following_siblings(): the node, then its later siblings in order
FollSeq(f, x) == SubSeq(ListOf(f, x), PosOf(f, x), Len(ListOf(f, x)))
ChildSeq(f, x)    == f.kids[x]
RevChildSeq(f, x) == Rev(f.kids[x])
\* descendants(): depth-first pre-order, the node first (PreSeq in Forest)

\* traverse(): Start(x), the traversals of the children in order, End(x)
RECURSIVE EdgeSeq(_, _), EdgeList(_, _)
EdgeSeq(f, x)  == <<StartE(x)>> \o EdgeList(f, f.kids[x]) \o <<EndE(x)>>
EdgeList(f, s) == IF s = <<>> THEN <<>> ELSE EdgeSeq(f, Head(s)) \o EdgeList(f, Tail(s))
RevEdgeSeq(f, x) == Rev(EdgeSeq(f, x))

(***************************************************************************)
(* NodeEdge::next_traverse / prev_traverse: successor / predecessor of an  *)
(* edge in the edge sequence of the whole top-level chain that contains    *)
(* the node (a parentless node's End is followed by the Start of its next  *)
(* top-level sibling); NONE at either end.                                 *)
(***************************************************************************)
RECURSIVE RootOf(_, _)
RootOf(f, x)  == IF ParentOf(f, x) = NONE THEN x ELSE RootOf(f, ParentOf(f, x))
ChainEdges(f, x) == EdgeList(f, ChainOf(f, RootOf(f, x)))
NextEdge(f, e) == LET s == ChainEdges(f, e[2]) i == IndexOf(s, e)
                  IN  IF i < Len(s) THEN s[i+1] ELSE <<0, 0>>
PrevEdge(f, e) == LET s == ChainEdges(f, e[2]) i == IndexOf(s, e)
                  IN  IF i > 1 THEN s[i-1] ELSE <<0, 0>>

(***************************************************************************)
(* A double-ended iterator over a sequence s is a deque: a pull word w     *)
(* over {"F","B"} yields, per pull, the popped element or NONE.            *)
(***************************************************************************)
RECURSIVE Pulls(_, _)
Pulls(s, w) ==
  IF w = <<>> THEN <<>>
  ELSE IF s = <<>> THEN <<NONE>> \o Pulls(s, Tail(w))
  ELSE IF Head(w) = "F" THEN <<Head(s)>> \o Pulls(Tail(s), Tail(w))
  ELSE <<s[Len(s)]>> \o Pulls(SubSeq(s, 1, Len(s) - 1), Tail(w))

(***************************************************************************)
(* C11: get_node_id_at(pos) for pos in 1..count+2: the token of the id of  *)
(* the live node stored at that position, NONE for removed and             *)
(* out-of-range positions.  count() = iter().count() = as_slice().len(),   *)
(* is_empty() <=> count() = 0, and usize::from(id) is the slot itself.     *)
(***************************************************************************)
IdAtSeq(n, L, tk) == [pos \in 1..(n + 2) |-> IF pos \in L THEN tk[pos] ELSE NONE]

\* everything a caller can read about node x, as one record
ObsOf(f, x) ==
  [anc  |-> AncSeq(f, x),   pred |-> PredSeq(f, x),
   prec |-> PrecSeq(f, x),  foll |-> FollSeq(f, x),
   kids |-> ChildSeq(f, x), rkids |-> RevChildSeq(f, x),
   desc |-> PreSeq(f, x),   trav |-> EdgeSeq(f, x), rtrav |-> RevEdgeSeq(f, x),
   nextS |-> NextEdge(f, StartE(x)), nextE |-> NextEdge(f, EndE(x)),
   prevS |-> PrevEdge(f, StartE(x)), prevE |-> PrevEdge(f, EndE(x))]
=============================================================================
