\* MODULE GenMulti.tla
INIT InitDeepPrint
NEXT NextNone
CONSTANTS
  MaxSlots = 40
  GenCap = 0
  RetireMin = 1000000
  Policy = "fifo"
  NVals = 0
  MaxReserve = 0
  EmitMode = "print"
CHECK_DEADLOCK FALSE
INVARIANTS Emit
