---------------------------- MODULE ChurnMonitor ----------------------------
(***************************************************************************)
(* C06 alone, evaluated on a recorded history of allocations and removals  *)
(* WITHOUT the forest semantics of IndexTree.tla: only the call history    *)
(* decides which ids are dead.                                             *)
(*                                                                         *)
(*   cur[s]  token of the id most recently issued for slot s and not yet   *)
(*           removed by a remove(s) call (0 = none)                        *)
(*   maxtok  number of ids issued so far                                   *)
(*                                                                         *)
(* Laws checked at every event of the prefix that consists of new / remove *)
(* / inject / reset events (the generation-counter boundary runs):         *)
(*   fresh      the token logged for a new id is maxtok+1 - the recorder   *)
(*              numbers ids through NodeId's Eq/Hash, so a reissued id     *)
(*              shows up with its OLD token                                *)
(*   is_removed every observation [token, NodeId::is_removed] equals       *)
(*              "token is not the current token of any slot"               *)
(* Trace.tla stops at the first event that is not a step of the full       *)
(* specification; this monitor keeps following the history, so a C06       *)
(* violation that only surfaces AFTER another property was already broken  *)
(* (e.g. an exhausted slot handed out again, then removed) is still seen.  *)
(***************************************************************************)
EXTENDS Naturals, Sequences, FiniteSets, TLC, Json, IOUtils

Rec == ndJsonDeserialize(IOEnv.TRACE)
MaxSlot == 64

VARIABLES k, cur, maxtok, bad
mvars == <<k, cur, maxtok, bad>>

Init == k = 1 /\ cur = [s \in 1..MaxSlot |-> 0] /\ maxtok = 0 /\ bad = <<>>

Ops == {"new", "remove", "inject", "reset", "round_trip", "clone_swap"}
ObsOK(e, c) == \A i \in DOMAIN e.isrem :
                  e.isrem[i][2] = (IF \E s \in 1..MaxSlot : c[s] = e.isrem[i][1] THEN 0 ELSE 1)

Next ==
  /\ k <= Len(Rec) /\ bad = <<>>
  /\ Rec[k].op \in Ops
  /\ LET e == Rec[k] IN
     \/ /\ e.op = "reset"
        /\ cur' = [s \in 1..MaxSlot |-> 0] /\ maxtok' = 0 /\ bad' = bad /\ k' = k + 1
     \/ /\ e.op \in {"round_trip", "clone_swap"}       \* the arena was replaced by a copy of itself
        /\ cur' = cur /\ maxtok' = maxtok
        /\ bad' = (IF ObsOK(e, cur) THEN bad ELSE <<k, "C06:is_removed">>) /\ k' = k + 1
     \/ /\ e.op = "inject"
        /\ cur' = [cur EXCEPT ![e.a] = maxtok + e.b] /\ maxtok' = maxtok + e.b
        /\ bad' = (IF ObsOK(e, cur') THEN bad ELSE <<k, "C06:is_removed">>) /\ k' = k + 1
     \/ /\ e.op = "remove"
        /\ cur' = [cur EXCEPT ![e.a] = 0] /\ maxtok' = maxtok
        /\ bad' = (IF e.res # "Ok" \/ ObsOK(e, cur') THEN bad ELSE <<k, "C06:is_removed">>) /\ k' = k + 1
     \/ /\ e.op = "new"
        /\ (IF e.res = "Ok" /\ e.new # 0 /\ e.new <= MaxSlot
            THEN /\ cur' = [cur EXCEPT ![e.new] = e.newtok] /\ maxtok' = maxtok + 1
                 /\ bad' = IF e.newtok # maxtok + 1 THEN <<k, "C06:reissued">>
                           ELSE IF ObsOK(e, cur') THEN bad ELSE <<k, "C06:is_removed">>
            ELSE UNCHANGED <<cur, maxtok, bad>>)
        /\ k' = k + 1
Spec == Init /\ [][Next]_mvars

Report == bad = <<>> \/ PrintT(<<"CHURN-MISMATCH", bad[1], bad[2], ToJson(Rec[bad[1]])>>)
Done   == PrintT(<<"CHURN-DONE", Len(Rec), TLCGet("stats").diameter>>)
=============================================================================
