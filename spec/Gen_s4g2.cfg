SPECIFICATION Spec
CONSTANTS
  MaxSlots = 4
  GenCap = 2
  RetireMin = 1000000
  Policy = "fifo"
  NVals = 0
  MaxReserve = 1
  EmitMode = "full"
VIEW View
CHECK_DEADLOCK FALSE
INVARIANTS Emit
