------------------------------ MODULE Monitor -------------------------------
(***************************************************************************)
(* Property formulas evaluated on RECORDED states of the real crate only.  *)
(*                                                                         *)
(* No action semantics: the file named by the environment variable STATES  *)
(* holds one JSON object per line                                          *)
(*     {"n": count, "live": [slots], "links": [[parent,prev,next,first,    *)
(*      last], ...]}                                                       *)
(* read back through the public accessors of the crate after real calls    *)
(* (a negative link = an id of an earlier generation of that slot).  TLC   *)
(* evaluates the link-level formulas of Forest.tla (C01 WellFormed, C02    *)
(* Acyclic, C12 Bare) on each of them and prints the ones that fail.       *)
(* Nothing beyond these three properties is demanded here.                 *)
(***************************************************************************)
EXTENDS Forest, TLC, Json, IOUtils

States == ndJsonDeserialize(IOEnv.STATES)

LinkRec(t) == [parent |-> t[1], prev |-> t[2], next |-> t[3], first |-> t[4], last |-> t[5]]
LinksOf(s) == [x \in 1..s.n |-> LinkRec(s.links[x])]
LiveOf(s)  == Rng(s.live)

Failed(i) == FailedClauses(LinksOf(States[i]), LiveOf(States[i]))

ASSUME PrintT(<<"MONITOR-STATES", Len(States)>>)
ASSUME \A i \in DOMAIN States :
          LET fc == Failed(i) IN fc = {} \/ PrintT(<<"MONITOR-BAD", i, fc>>)
ASSUME PrintT(<<"MONITOR-DONE">>)

VARIABLE x
Init == x = 0
Next == x' = x
=============================================================================
