------------------------------- MODULE Trace --------------------------------
(***************************************************************************)
(* Trace validation (binding direction impl -> spec).                      *)
(*                                                                         *)
(* The file named by the environment variable TRACE holds one JSON event   *)
(* per public call made on a real indextree::Arena by the recorder         *)
(* (harness/src/record.rs), with the call, its result and the full         *)
(* projected state read back through the public API afterwards:            *)
(*   op a b v checked  the call (node arguments = slots, newest id each)   *)
(*   res               "Ok" | "Panic" | "Self" | "Removed" | "Ancestor"    *)
(*   new, newtok       slot and id token of a created node (token = issue  *)
(*                     ordinal assigned through NodeId's own Eq/Hash: a    *)
(*                     reissued id shows up with its OLD token)            *)
(*   count live links val   the projected arena                            *)
(*   drain             slots obtained by allocating on a clone until       *)
(*                     count() grows = the reusable slots                  *)
(*   cap               capacity()                                          *)
(*   isrem             [token, NodeId::is_removed] for a sample of all ids *)
(*                     ever issued                                         *)
(*   drops             slots whose payload destructor ran during the call  *)
(* Every event must be a step of IndexTree.tla (Step) from the current     *)
(* state, and every logged field must equal the specification's value.     *)
(* A mismatch is printed with the names of the failing clauses and ends    *)
(* the validation (nothing is validated from a state the spec does not     *)
(* have).                                                                  *)
(***************************************************************************)
EXTENDS IndexTree, Json, IOUtils

Rec == ndJsonDeserialize(IOEnv.TRACE)

VARIABLES l,      \* index of the next event
          bad     \* <<>> or the description of the first mismatch
tvars == <<vars, l, bad>>

TInit == Init /\ l = 1 /\ bad = <<>>

Has(e, k)    == k \in DOMAIN e
Fld(e, k, d) == IF k \in DOMAIN e THEN e[k] ELSE d

Freed(S, e) == IF e.op = "remove" THEN <<e.a>> ELSE PreSeq(S.f, e.a)

\* the call the event claims, with every nondeterministic choice resolved from logged data
CallOf(S, e) ==
  CASE e.op \in InsOps -> [op |-> e.op, a |-> e.a, b |-> e.b, checked |-> e.checked]
    [] e.op = "new" -> [op |-> "new", a |-> e.new, v |-> e.v]
    [] e.op = "append_value" -> [op |-> "append_value", a |-> e.a, b |-> e.new, v |-> e.v]
    [] e.op = "detach" -> [op |-> "detach", a |-> e.a]
    [] e.op \in {"remove", "remove_subtree"} ->
         [op |-> e.op, a |-> e.a, r |-> Rng(Freed(S, e)) \ Rng(e.drain)]   \* freed but not reusable = retired
    [] e.op = "set" -> [op |-> "set", a |-> e.a, v |-> e.v]
    [] e.op = "clear" -> [op |-> "clear"]
    [] e.op = "reserve" -> [op |-> "reserve", a |-> e.a]

\* is the call one the drivers may make in S (otherwise the trace is malformed, not the code)
Callable(S, e) ==
  LET Sl == 1..S.count IN
  CASE e.op \in InsOps -> e.a \in Sl /\ e.b \in Sl
    [] e.op = "new" -> TRUE
    [] e.op = "append_value" -> e.a \in Sl
    [] e.op \in {"detach", "remove", "remove_subtree", "set"} -> e.a \in S.live
    [] e.op \in {"clear", "reserve"} -> TRUE
    [] OTHER -> FALSE

RemovedArg(S, e) == \/ (e.op \in InsOps /\ (e.a \notin S.live \/ e.b \notin S.live))
                    \/ (e.op = "append_value" /\ e.a \notin S.live)

EffectProp(op) == CASE op \in InsOps \cup {"detach", "append_value"} -> "C03"
                    [] op \in {"remove", "remove_subtree"} -> "C04"
                    [] op = "new" -> "C07"
                    [] op = "set" -> "C08"
                    [] OTHER -> "C13"

\* names of the clauses of event e that the specification's successor T does not satisfy
Mismatch(S, e, c, o) ==
  LET T   == o.st
      n   == MinN(T.count, e.count)
      lt  == LinkTuples(T)
      \* "ErrUnknown": an error variant the recorder could not classify (renamed / new) - accepted
      \* wherever the specification expects a refusal with a reason
      ok  == e.res \in o.res \/ (e.res = "ErrUnknown" /\ o.res \cap {"Self", "Removed", "Ancestor"} # {})
      fail == e.res # "Ok"
      ep  == IF fail THEN "C05" ELSE EffectProp(e.op)
  IN
  (IF ok THEN {} ELSE {IF RemovedArg(S, e) THEN "C12:result" ELSE "C05:result", "C05:result"}
                       \cup (IF o.res = {"Ok"} THEN {EffectProp(e.op) \o ":valid-call-failed"} ELSE {})
                       \* a call that ended in a panic / an error must not have taken the payload of a node that is still
                       \* reported live afterwards ("a live node keeps its payload", whatever else went wrong)
                       \cup (IF fail /\ \E s \in 1..MinN(S.count, e.count) : s \in S.live /\ s \in Rng(e.live) /\ e.val[s] # S.val[s]
                              THEN {"C08:payload-lost-in-failed-call"} ELSE {})) \cup
  (IF ~ok THEN {} ELSE
     (IF e.count = T.count THEN {} ELSE {(IF e.op \in {"new", "append_value"} THEN "C07" ELSE ep) \o ":count"}) \cup
     (IF Rng(e.live) = T.live THEN {} ELSE {(IF e.op \in {"new", "append_value"} THEN "C07" ELSE ep) \o ":live"}) \cup
     (IF e.op \in {"remove", "remove_subtree"} /\ (S.live \ T.live) \cap Rng(e.live) # {} THEN {"C12:not-marked-removed"} ELSE {}) \cup
     (IF \A s \in 1..n : s \in T.live => e.links[s] = lt[s] THEN {}
        ELSE {(IF e.op = "new" THEN "C07" ELSE ep) \o ":links"}) \cup
     (IF \A s \in 1..n : s \notin T.live => (e.links[s] = lt[s] \/ (s \notin S.live /\ s <= S.count /\ Has(e, "prevlinks") /\ e.links[s] = e.prevlinks[s]))
        THEN {} ELSE {"C12:removed-links"}) \cup
     (IF \A s \in 1..n : e.val[s] = T.val[s] THEN {} ELSE {"C08:payload"}) \cup
     (IF Rng(e.drain) = Rng(T.avail) /\ Len(e.drain) = Len(T.avail) THEN {} ELSE {"C07:free-set"}) \cup
     (IF o.new = 0 \/ e.newtok = T.nissued THEN {} ELSE {"C06:reissued"}) \cup
     (IF \A i \in DOMAIN e.isrem : e.isrem[i][2] = (IF IsRemovedTok(T, e.isrem[i][1]) THEN 1 ELSE 0) THEN {} ELSE {"C06:is_removed"}) \cup
     (IF e.cap >= T.capLow /\ (o.capKeep => e.cap = e.prevcap) THEN {} ELSE {"C13:capacity"}) \cup
     (IF ~Has(e, "drops") \/ (Rng(e.drops) = o.drops /\ ~e.dropped_twice) THEN {} ELSE {"C08:drops"}) \cup
     (IF ~Has(e, "idat") \/ (e.idat = IdAtSeq(T.count, T.live, T.tok) /\ e.empty = (T.count = 0)) THEN {} ELSE {"C11:get_node_id_at"}))

(***************************************************************************)
(* Events that are not calls of the modelled API                           *)
(***************************************************************************)
\* reset: a new arena (Arena::new() / with_capacity(cap))
IsReset(e) == e.op = "reset"
\* identity steps: the arena was replaced by a clone / a serde round trip of itself /
\* only read; the projected state logged must be unchanged
IsIdentity(e) == e.op \in {"clone_swap", "round_trip", "observe"}

ObsMatches(S, e) ==
  \/ e.op # "observe"
  \/ LET x == e.a o == ObsOf(S.f, x) g == e.obs IN
       /\ g.anc = o.anc /\ g.pred = o.pred /\ g.prec = o.prec /\ g.foll = o.foll
       /\ g.kids = o.kids /\ g.rkids = o.rkids /\ g.desc = o.desc
       /\ g.trav = o.trav /\ g.rtrav = o.rtrav
       /\ g.nextS = o.nextS /\ g.nextE = o.nextE /\ g.prevS = o.prevS /\ g.prevE = o.prevE

\* C10 on recorded histories: rev() and a few pull words against the deque (Observers!Pulls)
DEMatches(S, e) ==
  \/ e.op # "observe" \/ ~Has(e, "de")
  \/ LET x == e.a o == ObsOf(S.f, x) d == e.de IN
       /\ d.kidsRev = Rev(o.kids) /\ d.precRev = Rev(o.prec) /\ d.follRev = Rev(o.foll)
       /\ \A i \in DOMAIN d.words :
            /\ d.kidsPulls[i] = Pulls(o.kids, d.words[i])
            /\ d.precPulls[i] = Pulls(o.prec, d.words[i])
            /\ d.follPulls[i] = Pulls(o.foll, d.words[i])

SameProjection(S, e) ==
  /\ e.count = S.count /\ Rng(e.live) = S.live
  \* (links reported by removed slots are not part of the specification's state, see SoftClauses)
  /\ \A s \in 1..S.count : (s \in S.live => e.links[s] = LinkTuples(S)[s]) /\ e.val[s] = S.val[s]
  /\ Rng(e.drain) = Rng(S.avail) /\ Len(e.drain) = Len(S.avail)
  /\ \A i \in DOMAIN e.isrem : e.isrem[i][2] = (IF IsRemovedTok(S, e.isrem[i][1]) THEN 1 ELSE 0)
  /\ e.cap >= S.capLow

\* what is wrong after a run of silently executed remove/new_node cycles of one lone node
InjectMismatch(T, e) ==
  (IF e.count = T.count /\ Rng(e.live) = T.live THEN {} ELSE {"C07:fast-forward-live"}) \cup
  (IF e.count = T.count /\ (\A s \in 1..T.count : e.links[s] = LinkTuples(T)[s]) THEN {} ELSE {"C12:fast-forward-links"}) \cup
  (IF e.count = T.count /\ (\A s \in 1..T.count : e.val[s] = T.val[s]) THEN {} ELSE {"C08:fast-forward-payload"}) \cup
  (IF Rng(e.drain) = Rng(T.avail) /\ Len(e.drain) = Len(T.avail) THEN {} ELSE {"C07:fast-forward-free-set"}) \cup
  (IF \A i \in DOMAIN e.isrem : e.isrem[i][2] = (IF IsRemovedTok(T, e.isrem[i][1]) THEN 1 ELSE 0) THEN {} ELSE {"C06:is_removed"}) \cup
  {"C05:fast-forward"}      \* in any case valid calls left a state the specification does not have

SoftClauses == {"C12:removed-links"}

LinkRecOf(tp) == [parent |-> tp[1], prev |-> tp[2], next |-> tp[3], first |-> tp[4], last |-> tp[5]]
RecordedStateClauses(e) ==
  IF ~Has(e, "links") THEN {}
  ELSE FailedClauses([x \in 1..e.count |-> LinkRecOf(e.links[x])], Rng(e.live)) \ {"C12:Bare"}

Stop(what) == /\ bad' = <<l, what, Rec[l]>>
              /\ l' = Len(Rec) + 1
              /\ UNCHANGED vars

TNext ==
  /\ l <= Len(Rec)
  /\ LET e == Rec[l] S == State IN
     IF IsReset(e) THEN
        /\ count' = 0 /\ live' = {} /\ f' = EmptyForest /\ avail' = <<>> /\ retired' = {}
        /\ gen' = <<>> /\ val' = <<>> /\ capLow' = e.a /\ tok' = <<>> /\ nissued' = 0
        /\ path' = <<[op |-> "reset"]>> /\ last' = [NoResult EXCEPT !.drops = live]
        /\ l' = l + 1 /\ bad' = bad
     ELSE IF e.op = "broken" THEN
        \* the crate's own accessors panicked while the state was read back after the previous call
        Stop({(IF path = <<>> THEN "C13" ELSE EffectProp(path[Len(path)].op)) \o ":state-unreadable", "C05:state-unreadable"})
     ELSE IF e.op = "inject" THEN
        \* slot e.a went through e.b remove/new_node cycles that were not executed one by one
        \* (the recorder rewrote its generation; the thorough tier checks == with the real cycling)
        LET T == [S EXCEPT !.gen[e.a] = @ + e.b, !.tok[e.a] = S.nissued + e.b, !.nissued = @ + e.b] IN
        IF e.a \in S.live /\ SameProjection(T, e)
        THEN /\ gen' = T.gen /\ tok' = T.tok /\ nissued' = T.nissued
             /\ UNCHANGED <<count, live, f, avail, retired, val, capLow>>
             /\ path' = <<[op |-> "inject"]>> /\ last' = [NoResult EXCEPT !.drops = {e.a}]
             /\ l' = l + 1 /\ bad' = bad
        ELSE Stop(IF e.a \notin S.live THEN {"TRACE:injection"} ELSE InjectMismatch(T, e))
     ELSE IF IsIdentity(e) THEN
        \* a clone / deserialised copy does not inherit reserved capacity: only count() is guaranteed
        IF SameProjection([S EXCEPT !.capLow = IF e.op = "observe" THEN @ ELSE S.count], e) /\ ObsMatches(S, e) /\ DEMatches(S, e)
           /\ (Has(e, "eq") => e.eq)        \* copy == original by the crate's own PartialEq
        THEN /\ l' = l + 1 /\ bad' = bad
             /\ capLow' = IF e.op = "observe" THEN capLow ELSE count
             /\ path' = <<[op |-> e.op]>> /\ last' = NoResult
             /\ UNCHANGED <<count, live, f, avail, retired, gen, val, tok, nissued>>
        ELSE IF e.op = "observe" /\ ~DEMatches(S, e) THEN Stop({"C10:double-ended"})
        ELSE Stop({(CASE e.op = "round_trip" -> "C16" [] e.op = "clone_swap" -> "C13" [] OTHER -> "C09") \o ":identity-step"})
     ELSE IF ~Callable(S, e) THEN Stop({"TRACE:malformed"})
     ELSE IF e.op \in {"new", "append_value"} /\ e.res = "Ok" /\ e.new \notin NewSlotsP(S, "any")
          THEN Stop({"C07:slot"})
     ELSE LET c == CallOf(S, e) IN
          IF ~ValidCall(S, c) THEN Stop({"C07:slot-lost"})      \* a freed slot is not reusable although it is young
          ELSE LET o  == Step(S, c)
                   m0 == Mismatch(S, e, c, o)
                   \* when the event is not a step of the specification, also say which link-level
                   \* formulas (C01 / C02 / C12) the RECORDED state itself violates
                   m  == IF m0 \ SoftClauses = {} THEN m0 ELSE m0 \cup RecordedStateClauses(e)
               IN
               \* links reported by REMOVED slots are not part of the specification's state: such a
               \* mismatch is reported (C12) but validation continues, so that it cannot hide a later one
               IF m \ SoftClauses # {} THEN Stop(m)
               ELSE /\ (IF m = {} THEN TRUE ELSE PrintT(<<"TRACE-SOFT", l, m>>))
                    /\ DoP(c, FALSE) /\ l' = l + 1 /\ bad' = bad

TSpec == TInit /\ [][TNext]_tvars

\* printed (not an error by itself): the driver reads these lines
Accepted ==
  LET d == TLCGet("stats").diameter IN
  /\ PrintT(<<"TRACE-LEN", Len(Rec), "DEPTH", d>>)
  /\ TRUE

NotBad == bad = <<>> \/ PrintT(<<"TRACE-MISMATCH", bad[1], bad[2], ToJson(bad[3])>>)
=============================================================================
