\* MODULE ChurnMonitor.tla
SPECIFICATION Spec
CHECK_DEADLOCK FALSE
INVARIANT Report
POSTCONDITION Done
