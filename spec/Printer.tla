------------------------------ MODULE Printer -------------------------------
(***************************************************************************)
(* C14: what debug_pretty_print must draw.                                 *)
(*                                                                         *)
(* The rendering of the subtree rooted at `start` is a sequence of lines.  *)
(* Each line is described structurally, with tokens instead of characters: *)
(*     [g |-> guides, lead |-> lead, node |-> x, k |-> i]                  *)
(* meaning: the i-th line of node x's own rendering, preceded by one guide *)
(* token per ancestor level strictly between start and x ("BAR" = '|   ' *)
(* if that ancestor has a later sibling, "BLANK" = four spaces otherwise)  *)
(* and by the lead token: "ROOT" (nothing, x = start), "TEE" ('|-- ') or    *)
(* "ELL" ('`-- ', exactly for a last sibling) on a descendant's first      *)
(* line, and on its further lines "BAR"/"BLANK" by the same rule as for    *)
(* ancestors.  Lines come in pre-order: all lines of a node, then its      *)
(* children's blocks in order.  Nothing outside the subtree is printed.    *)
(*                                                                         *)
(* nl[x] = number of lines of node x's payload rendering (>= 1).           *)
(***************************************************************************)
EXTENDS Forest

HasNext(f, x) == NextOf(f, x) # NONE
GuideOf(f, a) == IF HasNext(f, a) THEN "BAR" ELSE "BLANK"

\* ancestors of x strictly below start, outermost first (x itself excluded)
RECURSIVE Between(_, _, _)
Between(f, start, x) ==
  IF x = start \/ ParentOf(f, x) = start THEN <<>>
  ELSE Between(f, start, ParentOf(f, x)) \o <<ParentOf(f, x)>>

LinesOfNode(f, start, x, nl) ==
  LET gs == [i \in 1..Len(Between(f, start, x)) |-> GuideOf(f, Between(f, start, x)[i])] IN
  [i \in 1..nl[x] |->
     [g    |-> gs,
      lead |-> IF x = start THEN "ROOT"
               ELSE IF i = 1 THEN (IF HasNext(f, x) THEN "TEE" ELSE "ELL")
               ELSE GuideOf(f, x),
      node |-> x, k |-> i]]

RECURSIVE Render(_, _, _, _), RenderList(_, _, _, _)
Render(f, start, x, nl)     == LinesOfNode(f, start, x, nl) \o RenderList(f, start, f.kids[x], nl)
RenderList(f, start, s, nl) == IF s = <<>> THEN <<>>
                               ELSE Render(f, start, Head(s), nl) \o RenderList(f, start, Tail(s), nl)

\* the whole rendering from `start`
Rendering(f, start, nl) == Render(f, start, start, nl)

(***************************************************************************)
(* Consequences stated by C14, checked by TLC on every generated case      *)
(* (a redundancy check of the definition itself)                           *)
(***************************************************************************)
RenderingLaws(f, start, nl) ==
  LET R == Rendering(f, start, nl)
      nodes == [i \in DOMAIN R |-> R[i].node]
  IN
  \* exactly the nodes of the subtree, each node's lines together, blocks in pre-order
  /\ {R[i].node : i \in DOMAIN R} = Desc(f, start)
  /\ Len(R) = LET RECURSIVE Sum(_) Sum(S) == IF S = {} THEN 0 ELSE LET y == CHOOSE y \in S : TRUE IN nl[y] + Sum(S \ {y})
              IN Sum(Desc(f, start))
  /\ SelectSeq(R, LAMBDA ln : ln.k = 1) = [i \in 1..Len(PreSeq(f, start)) |-> CHOOSE ln \in Rng(R) : ln.node = PreSeq(f, start)[i] /\ ln.k = 1]
  /\ \A i \in DOMAIN R : R[i].k > 1 => (R[i-1].node = R[i].node /\ R[i-1].k = R[i].k - 1)
  \* one guide per ancestor level; the root unindented
  /\ \A i \in DOMAIN R : Len(R[i].g) + (IF R[i].node = start THEN 0 ELSE 1)
                           = Len(AncSeq(f, R[i].node)) - Len(AncSeq(f, start))
  /\ \A i \in DOMAIN R : (R[i].lead = "ROOT") <=> (R[i].node = start)
  /\ \A i \in DOMAIN R : R[i].lead = "ELL" => (R[i].k = 1 /\ ~HasNext(f, R[i].node))
  /\ \A i \in DOMAIN R : R[i].lead = "TEE" => (R[i].k = 1 /\ HasNext(f, R[i].node))
=============================================================================
