------------------------------ MODULE StampInd ------------------------------
(***************************************************************************)
(* Inductive-invariant version of mechanisms/Stamp.tla for Apalache:       *)
(* NSlots is fixed to 3 but MAXSTAMP is ARBITRARY (any integer >= 1, so    *)
(* also the real 32767): the generation arithmetic (as_removed: s -> -s-1, *)
(* reuseable: s > -MAXSTAMP-1, reuse: s -> -s) never hands out a stamp a   *)
(* second time for a slot, and a slot is retired exactly when its counter  *)
(* is exhausted.  History sets are replaced by hi[s] (largest stamp issued *)
(* for s).  Checked as:                                                    *)
(*   apalache-mc check --init=Init    --inv=IndInv --length=0  (base)      *)
(*   apalache-mc check --init=IndInit --inv=IndInv --length=1  (step)      *)
(*   apalache-mc check --init=IndInit --inv=FreshInv --length=1            *)
(* An extra; no verdict depends on it.                                     *)
(***************************************************************************)
EXTENDS Integers, FiniteSets

CONSTANTS
  \* @type: Int;
  NSlots,
  \* @type: Int;
  MAXSTAMP

VARIABLES
  \* @type: Int -> Int;
  stamp,
  \* @type: Int;
  alloc,
  \* @type: Set(Int);
  free,
  \* @type: Int -> Int;
  hi,
  \* @type: Int;
  lastIssuedSlot,
  \* @type: Int;
  lastIssuedStamp,
  \* @type: Int;
  hiBefore,
  \* @type: Bool;
  justIssued

ConstInit == NSlots = 3 /\ MAXSTAMP \in Int /\ MAXSTAMP >= 1

Slots == 1..NSlots
MINSTAMP == -MAXSTAMP - 1

Init == /\ stamp = [s \in Slots |-> 0] /\ alloc = 0 /\ free = {}
        /\ hi = [s \in Slots |-> -1]
        /\ lastIssuedSlot = 0 /\ lastIssuedStamp = 0 /\ hiBefore = -1 /\ justIssued = FALSE

NewNode ==
  \/ /\ free /= {}
     /\ \E s \in free :
          /\ stamp' = [stamp EXCEPT ![s] = -stamp[s]]
          /\ free' = free \ {s}
          /\ hi' = [hi EXCEPT ![s] = IF -stamp[s] > hi[s] THEN -stamp[s] ELSE hi[s]]
          /\ lastIssuedSlot' = s /\ lastIssuedStamp' = -stamp[s] /\ hiBefore' = hi[s] /\ justIssued' = TRUE
          /\ UNCHANGED alloc
  \/ /\ free = {} /\ alloc < NSlots
     /\ alloc' = alloc + 1
     /\ hi' = [hi EXCEPT ![alloc + 1] = 0]
     /\ lastIssuedSlot' = alloc + 1 /\ lastIssuedStamp' = 0 /\ hiBefore' = hi[alloc + 1] /\ justIssued' = TRUE
     /\ UNCHANGED <<stamp, free>>

Remove(s) ==
  /\ s <= alloc /\ stamp[s] >= 0
  /\ stamp' = [stamp EXCEPT ![s] = -stamp[s] - 1]
  /\ free' = IF -stamp[s] - 1 > MINSTAMP THEN free \cup {s} ELSE free
  /\ justIssued' = FALSE
  /\ UNCHANGED <<alloc, hi, lastIssuedSlot, lastIssuedStamp, hiBefore>>

Next == NewNode \/ \E s \in Slots : Remove(s)

\* the inductive invariant: every variable is constrained
IndInv ==
  /\ alloc \in 0..NSlots
  /\ free \subseteq 1..alloc
  /\ \A s \in Slots :
       /\ stamp[s] >= MINSTAMP /\ stamp[s] <= MAXSTAMP
       /\ hi[s] >= -1 /\ hi[s] <= MAXSTAMP
       /\ s > alloc => (stamp[s] = 0 /\ hi[s] = -1)
       /\ s <= alloc =>
            /\ hi[s] >= 0
            /\ stamp[s] >= 0 => stamp[s] = hi[s]                  \* live: its stamp is the newest issued
            /\ stamp[s] < 0 => stamp[s] = -hi[s] - 1              \* removed: one past the newest issued
            /\ (s \in free) <=> (stamp[s] < 0 /\ stamp[s] > MINSTAMP)   \* reusable unless exhausted

IndInit ==
  /\ stamp \in [Slots -> Int] /\ hi \in [Slots -> Int]
  /\ alloc \in 0..NSlots /\ free \in SUBSET Slots
  /\ lastIssuedSlot \in 0..NSlots /\ lastIssuedStamp \in Int /\ hiBefore \in Int /\ justIssued = FALSE
  /\ IndInv

\* C06 at this level: the stamp issued in the last step is larger than every stamp issued before for
\* that slot (checked on the successor of an arbitrary IndInv state)
FreshInv == justIssued => lastIssuedStamp > hiBefore
=============================================================================
