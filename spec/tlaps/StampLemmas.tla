---------------------------- MODULE StampLemmas -----------------------------
(***************************************************************************)
(* TLAPS-checked arithmetic facts behind C06/C07 (an extra; no verdict     *)
(* depends on it): for EVERY MAXSTAMP >= 0 (the code: 32767)               *)
(*   - removing a live node and reusing its slot yields the next stamp,    *)
(*     strictly larger than every stamp the slot had before,               *)
(*   - a removed stamp is never equal to any live stamp (is_removed of an  *)
(*     old id cannot flip back while the slot is removed),                 *)
(*   - the slot stays reusable exactly until the live stamp MAXSTAMP is    *)
(*     removed (then it is retired), and reuse never leaves the range.     *)
(***************************************************************************)
EXTENDS Integers, TLAPS

CONSTANT MAXSTAMP
ASSUME MaxOK == MAXSTAMP \in Nat

MINSTAMP     == -MAXSTAMP - 1
AsRemoved(s) == -s - 1
Reuse(s)     == -s
Reuseable(s) == s > MINSTAMP
Live(s)      == s \in 0..MAXSTAMP

THEOREM NextStamp ==
  \A s \in 0..MAXSTAMP : Reuseable(AsRemoved(s)) => /\ Reuse(AsRemoved(s)) = s + 1
                                                    /\ Reuse(AsRemoved(s)) \in 0..MAXSTAMP
  BY MaxOK DEF AsRemoved, Reuse, Reuseable, MINSTAMP

THEOREM RemovedIsNegative ==
  \A s \in 0..MAXSTAMP : AsRemoved(s) < 0 /\ AsRemoved(s) >= MINSTAMP
  BY MaxOK DEF AsRemoved, MINSTAMP

THEOREM RetiredExactlyAtEnd ==
  \A s \in 0..MAXSTAMP : Reuseable(AsRemoved(s)) <=> s < MAXSTAMP
  BY MaxOK DEF AsRemoved, Reuseable, MINSTAMP

THEOREM OldIdsStayRemoved ==
  \* an id carries a live stamp t <= s; after removal (-s-1) and after reuse (s+1) the slot's stamp differs from t
  \A s \in 0..MAXSTAMP : \A t \in 0..s : AsRemoved(s) # t /\ Reuse(AsRemoved(s)) # t
  BY MaxOK DEF AsRemoved, Reuse
=============================================================================
