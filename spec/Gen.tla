-------------------------------- MODULE Gen ---------------------------------
(***************************************************************************)
(* Test-bundle generator (binding direction spec -> impl).                 *)
(*                                                                         *)
(* Explores IndexTree.tla exhaustively under the FIFO allocation policy    *)
(* (only to PRODUCE call sequences; see NewSlotsP) and prints, through the *)
(* invariant Emit, one JSON line per distinct state:                       *)
(*   path  a shortest call sequence reaching the state (BFS)               *)
(*   st    the projected state the real arena must then show               *)
(*   obs   the expected output of every observer for every live node       *)
(*   out   for EVERY call enabled under the permissive policy "any": the   *)
(*         allowed result classes, the node created, the payloads dropped  *)
(*         and the complete projected post-state                           *)
(* The Rust harness replays each line against the real crate.              *)
(***************************************************************************)
EXTENDS IndexTree, Printer, Json, SequencesExt

CONSTANT EmitMode    \* "full": state + observers + outcomes; "print": state + expected renderings (C14); "none"

Proj(S) == [count |-> S.count, live |-> S.live, links |-> LinkTuples(S),
            avail |-> S.avail, retired |-> S.retired, gen |-> S.gen, val |-> S.val,
            capLow |-> S.capLow, tok |-> S.tok, nissued |-> S.nissued,
            alive |-> {S.tok[s] : s \in S.live},      \* tokens t with ~IsRemovedTok(S, t)
            idat  |-> IdAtSeq(S.count, S.live, S.tok), empty |-> (S.count = 0)]

ObsAll(S) == [x \in 1..S.count |-> IF x \in S.live THEN ObsOf(S.f, x) ELSE [dead |-> TRUE]]

\* outcome of the unchecked (panicking) form of an insert, for the same arguments
ResU(S, c) == IF c.op \in InsOps THEN Step(S, [c EXCEPT !.checked = FALSE]).res ELSE {}

OutOf(S, c) == LET o == Step(S, c) IN
  [c |-> c, res |-> o.res, resU |-> ResU(S, c), new |-> o.new, drops |-> o.drops,
   capKeep |-> o.capKeep, post |-> Proj(o.st)]

\* checked and unchecked form of an insert have the same effect, so only the checked form
\* is listed and the unchecked result class is carried in resU
SameEffectU(S, c) == c.op \in InsOps =>
   Step(S, [c EXCEPT !.checked = FALSE]).st = Step(S, c).st

GenCalls(S) == {c \in CallsP(S, "any") : c.op \in InsOps => c.checked}
CallSeq(S)  == SetToSeq(GenCalls(S))

(***************************************************************************)
(* C14 cases: for every reachable state, every live start node and six     *)
(* assignments of line counts to nodes (variants 1-3: ((slot+v) mod 3)+1   *)
(* lines, variants 4-6: every node v-3 lines), the expected rendering.     *)
(* A payload with 3 lines has an EMPTY middle line.                        *)
(***************************************************************************)
PrintVariants == 1..6
NL(S, v) == [x \in 1..S.count |-> IF v <= 3 THEN ((x + v) % 3) + 1 ELSE v - 3]
PrintAll(S) == [v \in PrintVariants |->
                 [nl |-> NL(S, v),
                  r  |-> [x \in 1..S.count |-> IF x \in S.live THEN Rendering(S.f, x, NL(S, v)) ELSE <<>>]]]
PrintLaws(S) == \A v \in PrintVariants : \A x \in S.live : RenderingLaws(S.f, x, NL(S, v))

Bundle == IF EmitMode = "print"
          THEN [path |-> path, st |-> Proj(State), print |-> PrintAll(State)]
          ELSE [path |-> path, st |-> Proj(State), obs |-> ObsAll(State),
                out |-> IF EmitMode = "full"
                        THEN [i \in 1..Len(CallSeq(State)) |-> OutOf(State, CallSeq(State)[i])]
                        ELSE <<>>]

Emit == /\ \A c \in GenCalls(State) : SameEffectU(State, c)
        /\ EmitMode = "print" => PrintLaws(State)
        /\ IF EmitMode = "none" THEN TRUE ELSE PrintT(<<"BUNDLE", ToJson(Bundle)>>)
=============================================================================
