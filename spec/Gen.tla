-------------------------------- MODULE Gen ---------------------------------
(***************************************************************************)
(* Test-bundle generator (binding direction spec -> impl).                 *)
(*                                                                         *)
(* Explores IndexTree.tla exhaustively under the FIFO allocation policy    *)
(* (only to PRODUCE call sequences; see NewSlotsP) and prints, through the *)
(* invariant Emit, one JSON line per distinct state:                       *)
(*   path  a shortest call sequence reaching the state (BFS)               *)
(*   st    the projected state the real arena must then show               *)
(*   obs   the expected output of every observer for every live node       *)
(*   out   for EVERY call enabled under the permissive policy "any": the   *)
(*         allowed result classes, the node created, the payloads dropped  *)
(*         and the complete projected post-state                           *)
(* The Rust harness replays each line against the real crate.              *)
(***************************************************************************)
EXTENDS IndexTree, Printer, Json, SequencesExt

CONSTANT EmitMode    \* "full": state + observers + outcomes; "print": state + expected renderings (C14); "none"

Proj(S) == [count |-> S.count, live |-> S.live, links |-> LinkTuples(S),
            avail |-> S.avail, retired |-> S.retired, gen |-> S.gen, val |-> S.val,
            capLow |-> S.capLow, tok |-> S.tok, nissued |-> S.nissued,
            alive |-> {S.tok[s] : s \in S.live},      \* tokens t with ~IsRemovedTok(S, t)
            idat  |-> IdAtSeq(S.count, S.live, S.tok), empty |-> (S.count = 0)]

ObsAll(S) == [x \in 1..S.count |-> IF x \in S.live THEN ObsOf(S.f, x) ELSE [dead |-> TRUE]]

\* outcome of the unchecked (panicking) form of an insert, for the same arguments
ResU(S, c) == IF c.op \in InsOps THEN Step(S, [c EXCEPT !.checked = FALSE]).res ELSE {}

OutOf(S, c) == LET o == Step(S, c) IN
  [c |-> c, res |-> o.res, resU |-> ResU(S, c), new |-> o.new, drops |-> o.drops,
   capKeep |-> o.capKeep, post |-> Proj(o.st)]

\* checked and unchecked form of an insert have the same effect, so only the checked form
\* is listed and the unchecked result class is carried in resU
SameEffectU(S, c) == c.op \in InsOps =>
   Step(S, [c EXCEPT !.checked = FALSE]).st = Step(S, c).st

GenCalls(S) == {c \in CallsP(S, "any") : c.op \in InsOps => c.checked}
CallSeq(S)  == SetToSeq(GenCalls(S))

(***************************************************************************)
(* C14 cases: for every reachable state, every live start node and six     *)
(* assignments of line counts to nodes (variants 1-3: ((slot+v) mod 3)+1   *)
(* lines, variants 4-6: every node v-3 lines), the expected rendering.     *)
(* A payload with 3 lines has an EMPTY middle line.                        *)
(***************************************************************************)
PrintVariants == 1..6
NL(S, v) == [x \in 1..S.count |-> IF v <= 3 THEN ((x + v) % 3) + 1 ELSE v - 3]
PrintAll(S) == [v \in PrintVariants |->
                 [nl |-> NL(S, v),
                  r  |-> [x \in 1..S.count |-> IF x \in S.live THEN Rendering(S.f, x, NL(S, v)) ELSE <<>>]]]
PrintLaws(S) == \A v \in PrintVariants : \A x \in S.live : RenderingLaws(S.f, x, NL(S, v))

Bundle == IF EmitMode = "print"
          THEN [path |-> path, st |-> Proj(State), print |-> PrintAll(State)]
          ELSE [path |-> path, st |-> Proj(State), obs |-> ObsAll(State),
                out |-> IF EmitMode = "full"
                        THEN [i \in 1..Len(CallSeq(State)) |-> OutOf(State, CallSeq(State)[i])]
                        ELSE <<>>]

(***************************************************************************)
(* Shape-exhaustive bundles: instead of exploring histories breadth-first  *)
(* (which reaches every forest only up to 4-5 slots), start in EVERY       *)
(* ordered forest with up to MaxSlots nodes - one top-level chain, nodes   *)
(* numbered in pre-order, given as a parent vector - built by its          *)
(* canonical call path (new_node / insert_after for the roots,             *)
(* append_value for the others), and emit the bundle of that state only.   *)
(* This covers single-call behaviour on larger shapes (6-8 nodes, several  *)
(* nesting levels with siblings on each) that random histories rarely hit. *)
(***************************************************************************)
RECURSIVE PathUpV(_, _)
PathUpV(p, j) == IF j = 0 THEN <<0>> ELSE <<j>> \o PathUpV(p, p[j])
IsPreV(p)   == \A i \in DOMAIN p : p[i] \in (IF i = 1 THEN {0} ELSE Rng(PathUpV(p, i - 1)))
ShapeVectors(k) == { p \in [1..k -> 0..(k - 1)] : IsPreV(p) }
PrevRoot(p, i) == IF \E r \in 1..(i - 1) : p[r] = 0
                  THEN CHOOSE r \in 1..(i - 1) : p[r] = 0 /\ \A q \in (r + 1)..(i - 1) : p[q] # 0
                  ELSE 0
CanonStep(p, i) ==
  IF p[i] = 0
  THEN <<[op |-> "new", a |-> i, v |-> i]>>
         \o (IF PrevRoot(p, i) = 0 THEN <<>>
             ELSE <<[op |-> "insert_after", a |-> PrevRoot(p, i), b |-> i, checked |-> TRUE]>>)
  ELSE <<[op |-> "append_value", a |-> p[i], b |-> i, v |-> i]>>
RECURSIVE CanonPath(_, _)
CanonPath(p, i) == IF i > Len(p) THEN <<>> ELSE CanonStep(p, i) \o CanonPath(p, i + 1)
RECURSIVE RunPath(_, _)
RunPath(S, pth) == IF pth = <<>> THEN S ELSE RunPath(Step(S, Head(pth)).st, Tail(pth))

InitShapes ==
  \E k \in 1..MaxSlots : \E p \in ShapeVectors(k) :
     LET pth == CanonPath(p, 1)  S == RunPath(InitState(0), pth) IN
     /\ count = S.count /\ live = S.live /\ f = S.f /\ avail = S.avail /\ retired = S.retired
     /\ gen = S.gen /\ val = S.val /\ capLow = S.capLow /\ tok = S.tok /\ nissued = S.nissued
     /\ path = pth /\ last = NoResult
(***************************************************************************)
(* Recycling after removal on every shape: for every ordered forest, every *)
(* node x and both removal calls, remove x (or its subtree) and allocate   *)
(* again until every freed slot is recycled; the bundle of the resulting   *)
(* state is emitted.  Whatever a removal leaves behind in the freed slots  *)
(* (invisible in the specification's state, and identified by the          *)
(* breadth-first exploration) depends on the shape at removal time; these  *)
(* bundles make every such shape the immediate history of recycled slots.  *)
(***************************************************************************)
RECURSIVE Refill(_, _)
Refill(S, pth) == IF S.avail = <<>> THEN [st |-> S, pth |-> pth]
                  ELSE LET c == [op |-> "new", a |-> Head(S.avail), v |-> S.nissued + 1]
                       IN  Refill(Step(S, c).st, Append(pth, c))
InitRecycled ==
  \E k \in 1..MaxSlots : \E p \in ShapeVectors(k) : \E x \in 1..k : \E rop \in {"remove", "remove_subtree"} :
     LET pth0 == Append(CanonPath(p, 1), [op |-> rop, a |-> x, r |-> {}])
         R    == Refill(RunPath(InitState(0), pth0), pth0)
         S    == R.st
     IN
     /\ count = S.count /\ live = S.live /\ f = S.f /\ avail = S.avail /\ retired = S.retired
     /\ gen = S.gen /\ val = S.val /\ capLow = S.capLow /\ tok = S.tok /\ nissued = S.nissued
     /\ path = R.pth /\ last = NoResult
NextNone == FALSE /\ UNCHANGED vars

Emit == /\ \A c \in GenCalls(State) : SameEffectU(State, c)
        /\ EmitMode = "print" => PrintLaws(State)
        /\ IF EmitMode = "none" THEN TRUE ELSE PrintT(<<"BUNDLE", ToJson(Bundle)>>)
=============================================================================
