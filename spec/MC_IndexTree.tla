---------------------------- MODULE MC_IndexTree ----------------------------
(* Bounded exhaustive model checking of IndexTree.tla (see the .cfg files). *)
EXTENDS IndexTree
=============================================================================
