------------------------------ MODULE GenMulti ------------------------------
(***************************************************************************)
(* Shape-exhaustive bundles with SEVERAL top-level sibling chains: every   *)
(* ordered forest (parent vector p, see Gen.tla) together with every way   *)
(* of cutting its sequence of roots into consecutive chains (B = the roots *)
(* that start a new chain).  The forest is built by its canonical path - a *)
(* root that continues a chain is linked with insert_after, a root in B is *)
(* left alone - and the bundle of that state is emitted: every call,       *)
(* including moves between different chains and removals of chain members. *)
(***************************************************************************)
EXTENDS Gen

CanonStepB(p, B, i) ==
  IF p[i] = 0
  THEN <<[op |-> "new", a |-> i, v |-> i]>>
         \o (IF PrevRoot(p, i) = 0 \/ i \in B THEN <<>>
             ELSE <<[op |-> "insert_after", a |-> PrevRoot(p, i), b |-> i, checked |-> TRUE]>>)
  ELSE <<[op |-> "append_value", a |-> p[i], b |-> i, v |-> i]>>
RECURSIVE CanonPathB(_, _, _)
CanonPathB(p, B, i) == IF i > Len(p) THEN <<>> ELSE CanonStepB(p, B, i) \o CanonPathB(p, B, i + 1)

InitShapesMulti ==
  \E k \in 2..MaxSlots : \E p \in ShapeVectors(k) :
     \E B \in (SUBSET {i \in 2..k : p[i] = 0}) \ {{}} :        \* at least two chains (one chain: GenShapes)
        LET pth == CanonPathB(p, B, 1)  S == RunPath(InitState(0), pth) IN
        /\ count = S.count /\ live = S.live /\ f = S.f /\ avail = S.avail /\ retired = S.retired
        /\ gen = S.gen /\ val = S.val /\ capLow = S.capLow /\ tok = S.tok /\ nissued = S.nissued
        /\ path = pth /\ last = NoResult
(***************************************************************************)
(* C14 at depth: a root whose first child starts an only-child chain of    *)
(* DeepLen nodes and whose second child is a leaf - more than 16 / 32      *)
(* guide levels on one line, with "|   " guides far to the left of blank   *)
(* ones.  Used with EmitMode = "print".                                    *)
(***************************************************************************)
DeepVector(n) == [i \in 1..n |-> IF i = 1 THEN 0 ELSE IF i = n THEN 1 ELSE i - 1]
\* a chain of d nodes whose tip has two leaves (siblings opened and closed far below the start node)
TipVector(d) == [i \in 1..(d + 2) |-> IF i = 1 THEN 0 ELSE IF i > d THEN d ELSE i - 1]
\* a "comb": every chain node (indices 1, 4, 7, ...) has three children - a leaf, the next chain node, another leaf - so
\* the deep part is drawn under "|   " guides on every level and leaves are opened AFTER the deep part was closed
CombVector(n) == [i \in 1..n |-> IF i = 1 THEN 0
                                 ELSE IF i % 3 = 1 THEN i - 3
                                 ELSE IF i % 3 = 2 THEN i - 1
                                 ELSE IF i = 3 THEN 1 ELSE i - 5]
DeepVectors == {DeepVector(20), DeepVector(22), TipVector(9), TipVector(12), TipVector(18), CombVector(31), CombVector(39)}
InitDeepPrint ==
  \E p \in DeepVectors :
     LET pth == CanonPath(p, 1)  S == RunPath(InitState(0), pth) IN
     /\ count = S.count /\ live = S.live /\ f = S.f /\ avail = S.avail /\ retired = S.retired
     /\ gen = S.gen /\ val = S.val /\ capLow = S.capLow /\ tok = S.tok /\ nissued = S.nissued
     /\ path = pth /\ last = NoResult
=============================================================================
