----------------------------- MODULE IndexTree ------------------------------
(***************************************************************************)
(* Specification of the indextree arena at the level of its public API.    *)
(*                                                                         *)
(* State = one arena.  One action per public call (the library is          *)
(* sequential: the linearisation point of a call is its return).  The      *)
(* specification is exactly as nondeterministic as the properties C01-C18  *)
(* allow: allocation may pick ANY reusable slot (Policy = "any"), a failed *)
(* insert may report ANY applicable reason, a slot may be retired instead  *)
(* of becoming reusable once it has been issued RetireMin times, capacity  *)
(* is only bounded from below.  Everything else is deterministic, because  *)
(* C03/C04 fix the effect of every mutator completely.                     *)
(*                                                                         *)
(* The meaning of a call is the pure operator Step(S, c) on state records, *)
(* used by the model (Do), by the test-bundle generator (Gen.tla) and by   *)
(* trace validation (Trace.tla): one source of truth.                      *)
(***************************************************************************)
EXTENDS Observers, TLC

CONSTANTS
  MaxSlots,    \* bound on count() for model checking (allocation disabled beyond)
  GenCap,      \* generations above this are identified by VIEW (0 = recycling invisible)
  RetireMin,   \* a freed slot may be retired iff it was reissued at least this often
  Policy,      \* "any": allocation takes any reusable slot; "fifo": oldest first (generator)
  NVals,       \* payload values 1..NVals
  MaxReserve   \* reserve(k) for k in 0..MaxReserve

VARIABLES
  count,    \* number of slots = Arena::count()
  live,     \* slots holding a live node
  f,        \* the ordered forest over the live slots
  avail,    \* reusable removed slots, oldest first (read as a set by the properties)
  retired,  \* removed slots that will never be reused
  gen,      \* gen[s]  = how often slot s has been recycled
  val,      \* val[s]  = payload of live slot s (0 if removed)
  capLow,   \* guaranteed lower bound of capacity()
  tok,      \* tok[s]  = token (issue ordinal) of the newest id of slot s
  nissued,  \* number of ids issued since creation / last clear
  path,     \* history: calls so far            (hidden by VIEW)
  last      \* history: outcome of the last call (hidden by VIEW)

absvars == <<count, live, f, avail, retired, gen, val, capLow, tok, nissued>>
vars    == <<count, live, f, avail, retired, gen, val, capLow, tok, nissued, path, last>>

State == [count |-> count, live |-> live, f |-> f, avail |-> avail, retired |-> retired,
          gen |-> gen, val |-> val, capLow |-> capLow, tok |-> tok, nissued |-> nissued]

InitState(cap) ==
  [count |-> 0, live |-> {}, f |-> EmptyForest, avail |-> <<>>, retired |-> {},
   gen |-> <<>>, val |-> <<>>, capLow |-> cap, tok |-> <<>>, nissued |-> 0]

InsOps   == {"append", "prepend", "insert_after", "insert_before"}
LiveOps  == {"detach", "remove", "remove_subtree"}
NoResult == [res |-> {"Ok"}, drops |-> {}, new |-> 0, capKeep |-> FALSE]

(***************************************************************************)
(* C05: when is an insert impossible, and which reasons apply.             *)
(* a = the target (self), b = the node to insert.  For append/prepend the  *)
(* place is under a, for insert_before/after it is under parent(a); b is   *)
(* an ancestor of that place iff b is a proper ancestor of a (b = a is     *)
(* "Self").                                                                *)
(***************************************************************************)
Reasons(S, a, b) ==
  (IF a = b THEN {"Self"} ELSE {}) \cup
  (IF a \notin S.live \/ b \notin S.live THEN {"Removed"} ELSE {}) \cup
  (IF a \in S.live /\ b \in S.live /\ a # b /\ b \in ProperAnc(S.f, a) THEN {"Ancestor"} ELSE {})

ApplyIns(g, op, a, b) ==
  CASE op = "append"        -> AppendChild(g, a, b)
    [] op = "prepend"       -> PrependChild(g, a, b)
    [] op = "insert_after"  -> InsertAfter(g, a, b)
    [] op = "insert_before" -> InsertBefore(g, a, b)

(***************************************************************************)
(* C07: which slot may an allocation return                                *)
(***************************************************************************)
NewSlotsP(S, pol) == IF S.avail = <<>> THEN {S.count + 1}
                     ELSE IF pol = "fifo" THEN {Head(S.avail)} ELSE Rng(S.avail)
NewSlots(S) == NewSlotsP(S, Policy)

\* payload values offered to allocation / set.  NVals = 0 is the "unique payload" mode used
\* for test generation: a node's payload is its id token, a write adds 100.
NewVals(S)    == IF NVals = 0 THEN {S.nissued + 1} ELSE 1..NVals
SetVals(S, a) == IF NVals = 0 THEN {S.val[a] + 100} ELSE 1..NVals

Alloc(S, s, v) ==
  LET fresh == s > S.count IN
  [S EXCEPT !.count   = MaxN(@, s),
            !.live    = @ \cup {s},
            !.f       = AddRoot(@, s),
            !.avail   = Without(@, s),
            !.gen     = IF fresh THEN Append(@, 0) ELSE [@ EXCEPT ![s] = @ + 1],
            !.val     = IF fresh THEN Append(@, v) ELSE [@ EXCEPT ![s] = v],
            !.tok     = IF fresh THEN Append(@, S.nissued + 1) ELSE [@ EXCEPT ![s] = S.nissued + 1],
            !.nissued = @ + 1,
            !.capLow  = MaxN(@, MaxN(S.count, s))]   \* capacity() >= count()

\* slots of `freed` (a sequence) become reusable, except those in R which are retired
Free(S, freed, R) ==
  [S EXCEPT !.live    = @ \ Rng(freed),
            !.avail   = @ \o SelectSeq(freed, LAMBDA s : s \notin R),
            !.retired = @ \cup R,
            !.val     = [s \in DOMAIN @ |-> IF s \in Rng(freed) THEN 0 ELSE @[s]]]
MayRetire(S, freed) == { s \in Rng(freed) : S.gen[s] >= RetireMin }

(***************************************************************************)
(* Step(S, c): result and successor state of call c in state S.            *)
(*   res     set of allowed result classes: {"Ok"}, {"Panic"}, or the set  *)
(*           of applicable reasons of a failing checked insert             *)
(*   drops   slots whose payload is destroyed by the call (C08)            *)
(*   new     slot of the node created by the call (0 if none)              *)
(*   capKeep capacity() must be exactly what it was before (clear)         *)
(***************************************************************************)
Step(S, c) ==
  CASE c.op = "new" ->
         [NoResult EXCEPT !.new = c.a] @@ [st |-> Alloc(S, c.a, c.v)]
    [] c.op = "append_value" ->       \* a = parent, b = slot of the new node
         IF c.a \notin S.live THEN [NoResult EXCEPT !.res = {"Panic"}] @@ [st |-> S]
         ELSE LET T == Alloc(S, c.b, c.v) IN
              [NoResult EXCEPT !.new = c.b] @@ [st |-> [T EXCEPT !.f = AppendChild(@, c.a, c.b)]]
    [] c.op \in InsOps ->
         LET R == Reasons(S, c.a, c.b) IN
         IF R # {} THEN [NoResult EXCEPT !.res = IF c.checked THEN R ELSE {"Panic"}] @@ [st |-> S]
         ELSE NoResult @@ [st |-> [S EXCEPT !.f = ApplyIns(@, c.op, c.a, c.b)]]
    [] c.op = "detach" ->
         NoResult @@ [st |-> [S EXCEPT !.f = Detach(@, c.a)]]
    [] c.op = "remove" ->             \* r = set of freed slots that are retired
         [NoResult EXCEPT !.drops = {c.a}]
           @@ [st |-> Free([S EXCEPT !.f = RemoveOne(@, c.a)], <<c.a>>, c.r)]
    [] c.op = "remove_subtree" ->
         [NoResult EXCEPT !.drops = Desc(S.f, c.a)]
           @@ [st |-> Free([S EXCEPT !.f = RemoveTree(@, c.a)], PreSeq(S.f, c.a), c.r)]
    [] c.op = "set" ->                \* get_mut / IndexMut / iter_mut write
         [NoResult EXCEPT !.drops = {c.a}] @@ [st |-> [S EXCEPT !.val[c.a] = c.v]]
    [] c.op = "clear" ->
         [NoResult EXCEPT !.drops = S.live, !.capKeep = TRUE] @@ [st |-> InitState(S.capLow)]
    [] c.op = "reserve" ->
         NoResult @@ [st |-> [S EXCEPT !.capLow = MaxN(@, S.count + c.a)]]

(***************************************************************************)
(* Calls enabled in S.  Node arguments are slots: each slot stands for its *)
(* NEWEST id (live, or removed and not yet recycled) - exactly the ids C05 *)
(* and C12 quantify over.  detach/remove/remove_subtree/set take live ids. *)
(***************************************************************************)
CanAlloc(S) == S.count < MaxSlots \/ S.avail # <<>>
RetireChoices(S, freed) == SUBSET MayRetire(S, freed)

CallsP(S, pol) ==
  LET Sl == 1..S.count IN
       {[op |-> o, a |-> a, b |-> b, checked |-> k] : o \in InsOps, a \in Sl, b \in Sl, k \in BOOLEAN}
  \cup {[op |-> "detach", a |-> a] : a \in S.live}
  \cup UNION {{[op |-> "remove", a |-> a, r |-> r] : r \in RetireChoices(S, <<a>>)} : a \in S.live}
  \cup UNION {{[op |-> "remove_subtree", a |-> a, r |-> r] : r \in RetireChoices(S, PreSeq(S.f, a))} : a \in S.live}
  \cup UNION {{[op |-> "set", a |-> a, v |-> v] : v \in SetVals(S, a)} : a \in S.live}
  \cup {[op |-> "clear"]}
  \cup {[op |-> "reserve", a |-> k] : k \in 0..MaxReserve}
  \cup (IF CanAlloc(S)
        THEN {[op |-> "new", a |-> s, v |-> v] : s \in NewSlotsP(S, pol), v \in NewVals(S)}
             \cup {[op |-> "append_value", a |-> p, b |-> s, v |-> v] : p \in Sl, s \in NewSlotsP(S, pol), v \in NewVals(S)}
        ELSE {})
Calls(S) == CallsP(S, Policy)

ValidCall(S, c) ==
  /\ c.op = "remove" => c.r \subseteq MayRetire(S, <<c.a>>)
  /\ c.op = "remove_subtree" => c.r \subseteq MayRetire(S, PreSeq(S.f, c.a))

(***************************************************************************)
(* The behaviour                                                           *)
(***************************************************************************)
Init ==
  /\ count = 0 /\ live = {} /\ f = EmptyForest /\ avail = <<>> /\ retired = {}
  /\ gen = <<>> /\ val = <<>> /\ capLow = 0 /\ tok = <<>> /\ nissued = 0
  /\ path = <<>> /\ last = NoResult

\* keep = TRUE: path is the whole history (test generation); FALSE: only the last call (trace
\* validation of long histories; LastCall below reads only the last element)
DoP(c, keep) ==
  LET o == Step(State, c) IN
  /\ count' = o.st.count /\ live' = o.st.live /\ f' = o.st.f /\ avail' = o.st.avail
  /\ retired' = o.st.retired /\ gen' = o.st.gen /\ val' = o.st.val /\ capLow' = o.st.capLow
  /\ tok' = o.st.tok /\ nissued' = o.st.nissued
  /\ path' = IF keep THEN Append(path, c) ELSE <<c>>
  /\ last' = [res |-> o.res, drops |-> o.drops, new |-> o.new, capKeep |-> o.capKeep]
Do(c) == DoP(c, TRUE)

Next == \E c \in Calls(State) : ValidCall(State, c) /\ Do(c)
Spec == Init /\ [][Next]_vars

\* generations above GenCap are identified; payloads and histories are not part of the view
GenView == [s \in 1..count |-> MinN(gen[s], GenCap)]
View    == <<count, live, f, avail, retired, GenView>>
ViewVal == <<count, live, f, avail, retired, GenView, val>>

(***************************************************************************)
(* Derived link state (what Node::parent() etc. must report)               *)
(***************************************************************************)
Slots    == 1..count
Links    == [x \in Slots |-> LinkOf(f, live, x)]
LinksOfState(S) == [x \in 1..S.count |-> LinkOf(S.f, S.live, x)]
\* links of slot x as the tuple <<parent, prev, next, first, last>> (the wire format)
LinkTuples(S) == [x \in 1..S.count |->
                    LET k == LinkOf(S.f, S.live, x) IN <<k.parent, k.prev, k.next, k.first, k.last>>]

(***************************************************************************)
(* Invariants                                                              *)
(***************************************************************************)
TypeOK ==
  /\ count \in 0..MaxSlots
  /\ live \subseteq Slots
  /\ DOMAIN f.kids = Slots
  /\ DOMAIN gen = Slots /\ DOMAIN val = Slots /\ DOMAIN tok = Slots
  /\ Rng(avail) \subseteq Slots /\ retired \subseteq Slots
  /\ \A s \in Slots : val[s] \in Nat /\ (NVals > 0 => val[s] <= NVals) /\ (val[s] = 0 <=> s \notin live)

ForestOK == Partitioned(f, live)

\* C01, C02, C12 as properties of the links a client can read
C01_WellFormed == WellFormed(Links, live)
C02_Acyclic    == Acyclic(Links, live)
C12_Bare       == Bare(Links, live)

\* C07: every slot is exactly one of live / reusable / retired; nothing twice in the free list
C07_SlotAccounting ==
  /\ NoDup(avail)
  /\ Rng(avail) \cap live = {} /\ Rng(avail) \cap retired = {} /\ retired \cap live = {}
  /\ Rng(avail) \cup retired \cup live = Slots
  /\ \A s \in retired : gen[s] >= RetireMin

\* C06: tokens of the newest ids are distinct and were all issued; a dead token never returns
C06_TokensDistinct ==
  /\ \A s, t \in Slots : s # t => tok[s] # tok[t]
  /\ \A s \in Slots : tok[s] \in 1..nissued
IsRemovedTok(S, t) == ~ \E s \in S.live : S.tok[s] = t    \* for any issued token t

\* C05/C12: a failed call changes nothing; every other result is Ok
C05_FailAtomic ==
  last.res # {"Ok"} => /\ last.drops = {} /\ last.new = 0

(***************************************************************************)
(* Action properties: C03 / C04 / C06 / C07 / C08 / C13 stated             *)
(* independently of the Forest editing operators used in Step (a           *)
(* redundancy check of the specification itself).                          *)
(***************************************************************************)
TopsWithout(g, X) == {c \in {SelectSeq(ch, LAMBDA y : y \notin X) : ch \in g.tops} : c # <<>>}
ChainPre(g)       == {PreList(g, ch) : ch \in g.tops}     \* pre-order of every top-level chain

LastCall == path'[Len(path')]
\* clear(), or (trace validation only) the creation of a new arena
\* or a state injection (a slot fast-forwarded over many remove/new_node cycles)
Restart(c) == c.op \in {"clear", "reset", "inject"}
Moved(c) == c.op \in InsOps /\ last'.res = {"Ok"}

C03_MovePlacesSubtree ==
  [][ LET c == LastCall IN
      /\ Moved(c) =>
           /\ live' = live
           \* every child list and every chain is what it was, apart from b leaving / entering
           /\ \A x \in live : Without(f'.kids[x], c.b) = Without(f.kids[x], c.b)
           /\ TopsWithout(f', {c.b}) = TopsWithout(f, {c.b})
           /\ PreSeq(f', c.b) = PreSeq(f, c.b)                    \* subtree intact and in order
           /\ c.op = "append"  => ParentOf(f', c.b) = c.a /\ LastOf(f', c.a) = c.b
           /\ c.op = "prepend" => ParentOf(f', c.b) = c.a /\ FirstOf(f', c.a) = c.b
           /\ c.op = "insert_after"  => PrevOf(f', c.b) = c.a /\ ParentOf(f', c.b) = ParentOf(f', c.a)
           /\ c.op = "insert_before" => NextOf(f', c.b) = c.a /\ ParentOf(f', c.b) = ParentOf(f', c.a)
           \* re-inserting a node where it already is changes nothing
           /\ (c.op = "append"  /\ ParentOf(f, c.b) = c.a /\ LastOf(f, c.a) = c.b)  => f' = f
           /\ (c.op = "prepend" /\ ParentOf(f, c.b) = c.a /\ FirstOf(f, c.a) = c.b) => f' = f
           /\ (c.op = "insert_after"  /\ PrevOf(f, c.b) = c.a) => f' = f
           /\ (c.op = "insert_before" /\ NextOf(f, c.b) = c.a) => f' = f
      /\ c.op = "detach" =>
           /\ live' = live
           /\ ParentOf(f', c.a) = NONE /\ PrevOf(f', c.a) = NONE /\ NextOf(f', c.a) = NONE
           /\ \A x \in live : Without(f'.kids[x], c.a) = Without(f.kids[x], c.a)
           /\ TopsWithout(f', {c.a}) = TopsWithout(f, {c.a})
      /\ (c.op = "append_value" /\ last'.res = {"Ok"}) =>
           /\ live' = live \cup {c.b} /\ c.b \notin live
           /\ f'.kids[c.a] = Append(f.kids[c.a], c.b) /\ f'.kids[c.b] = <<>>
           /\ \A x \in live \ {c.a} : f'.kids[x] = f.kids[x]
           /\ f'.tops = f.tops
      /\ (c.op \in InsOps \cup {"append_value"} /\ last'.res # {"Ok"}) => UNCHANGED absvars
    ]_vars

\* An ordered forest is determined by its parent function and the pre-order of its
\* top-level chains; C04 is stated in these terms.
C04_RemoveExact ==
  [][ LET c == LastCall IN
      /\ c.op = "remove" =>
           /\ live' = live \ {c.a}
           /\ \A y \in live' : ParentOf(f', y) = IF ParentOf(f, y) = c.a THEN ParentOf(f, c.a)
                                                                        ELSE ParentOf(f, y)
           /\ ChainPre(f') = {Without(s, c.a) : s \in ChainPre(f)} \ {<<>>}
      /\ c.op = "remove_subtree" =>
           /\ live' = live \ Desc(f, c.a)
           /\ \A y \in live' : ParentOf(f', y) = ParentOf(f, y)
           /\ ChainPre(f') = {SelectSeq(s, LAMBDA y : y \notin Desc(f, c.a)) : s \in ChainPre(f)} \ {<<>>}
    ]_vars

C07_Allocation ==
  [][ LET c == LastCall IN
      /\ (c.op \in {"new", "append_value"} /\ last'.res = {"Ok"}) =>
           LET s == last'.new IN
           /\ s \notin live /\ live' = live \cup {s}
           /\ IF avail # <<>> THEN count' = count /\ s \in Rng(avail)
                              ELSE count' = count + 1 /\ s = count'
           /\ Rng(avail') = Rng(avail) \ {s} /\ retired' = retired
           /\ f'.kids[s] = <<>>
           /\ \A x \in live : val'[x] = val[x] /\ tok'[x] = tok[x]
           /\ c.op = "new" => (\A x \in live : f'.kids[x] = f.kids[x]) /\ f'.tops = f.tops \cup {<<s>>}
      /\ c.op \in {"remove", "remove_subtree"} =>
           /\ Rng(avail') \cup retired' = Rng(avail) \cup retired \cup (live \ live')
           /\ count' = count
      /\ c.op \notin {"new", "append_value", "remove", "remove_subtree", "clear", "reset"} =>
           /\ avail' = avail /\ retired' = retired /\ count' = count /\ live' = live
    ]_vars

C06_FreshIds ==
  [][ ~Restart(LastCall) =>
      /\ nissued' \in {nissued, nissued + 1}
      /\ \A s \in 1..count' :
           \/ (s \in 1..count /\ tok'[s] = tok[s])
           \/ (tok'[s] = nissued + 1 /\ nissued' = nissued + 1 /\ last'.new = s)   \* a new id is fresh
      \* an id that is dead stays dead: live tokens of the next state were live or are new
      /\ \A s \in live' : (s \in live /\ tok'[s] = tok[s]) \/ tok'[s] = nissued + 1
    ]_vars

SameNode(x) == x \in live /\ x \in live' /\ tok'[x] = tok[x]
C08_PayloadFrame ==
  [][ LET c == LastCall IN
      /\ \A x \in live : (SameNode(x) /\ ~(c.op = "set" /\ c.a = x)) => val'[x] = val[x]
      /\ c.op = "set" => val'[c.a] = c.v /\ SameNode(c.a)
      /\ last'.drops = {x \in live : ~SameNode(x)} \cup (IF c.op = "set" THEN {c.a} ELSE {})
    ]_vars

C13_ClearIsFresh ==
  [][ LastCall.op = "clear" =>
        /\ count' = 0 /\ live' = {} /\ f' = EmptyForest /\ avail' = <<>> /\ retired' = {}
        /\ gen' = <<>> /\ val' = <<>> /\ tok' = <<>> /\ nissued' = 0 /\ capLow' = capLow
    ]_vars

C13_ReserveInvisible ==
  [][ LastCall.op = "reserve" =>
        /\ UNCHANGED <<count, live, f, avail, retired, gen, val, tok, nissued>>
        /\ capLow' >= count + LastCall.a /\ capLow' >= capLow
    ]_vars
=============================================================================
