------------------------------- MODULE Forest -------------------------------
(***************************************************************************)
(* Pure operators on ordered forests with top-level sibling chains.        *)
(*                                                                         *)
(* A forest over the slots 1..n is a record                                *)
(*     [kids : [1..n -> Seq(1..n)], tops : SUBSET Seq(1..n)]               *)
(* kids[p] is the ordered child list of p; tops is the set of chains of    *)
(* parentless nodes (indextree lets parentless nodes be siblings of each   *)
(* other: "top-level nodes behave like children of an implicit parent",    *)
(* and there can be any number of such implicit parents).  Every node that *)
(* is in the forest occurs in exactly one list, exactly once.              *)
(*                                                                         *)
(* Helper names are prefixed where the CommunityModules define the same    *)
(* identifier (Range, Min, SetToSeq, Remove, ...).                         *)
(***************************************************************************)
EXTENDS Naturals, Sequences, FiniteSets

NONE == 0

Rng(s)        == { s[i] : i \in DOMAIN s }
MinN(a, b)    == IF a < b THEN a ELSE b
MaxN(a, b)    == IF a > b THEN a ELSE b
Without(s, x) == SelectSeq(s, LAMBDA y : y # x)
IndexOf(s, x) == CHOOSE i \in DOMAIN s : s[i] = x
Rev(s)        == [i \in 1..Len(s) |-> s[Len(s) + 1 - i]]
NoDup(s)      == \A i, j \in DOMAIN s : i # j => s[i] # s[j]
RECURSIVE Flat(_)
Flat(ss)      == IF ss = <<>> THEN <<>> ELSE Head(ss) \o Flat(Tail(ss))

\* replace the single occurrence of x in s by the sequence r
Splice(s, x, r)    == LET i == IndexOf(s, x) IN SubSeq(s, 1, i-1) \o r \o SubSeq(s, i+1, Len(s))
InsAfter(s, t, x)  == Splice(s, t, <<t, x>>)
InsBefore(s, t, x) == Splice(s, t, <<x, t>>)

EmptyForest == [kids |-> <<>>, tops |-> {}]

(***************************************************************************)
(* Reading a forest                                                        *)
(***************************************************************************)
InForest(f, x) == \/ \E p \in DOMAIN f.kids : x \in Rng(f.kids[p])
                  \/ \E c \in f.tops : x \in Rng(c)
ParentOf(f, x) == IF \E p \in DOMAIN f.kids : x \in Rng(f.kids[p])
                  THEN CHOOSE p \in DOMAIN f.kids : x \in Rng(f.kids[p]) ELSE NONE
ChainOf(f, x)  == CHOOSE c \in f.tops : x \in Rng(c)
ListOf(f, x)   == IF ParentOf(f, x) # NONE THEN f.kids[ParentOf(f, x)] ELSE ChainOf(f, x)
PosOf(f, x)    == IndexOf(ListOf(f, x), x)
PrevOf(f, x)   == LET s == ListOf(f, x) i == IndexOf(s, x) IN IF i > 1 THEN s[i-1] ELSE NONE
NextOf(f, x)   == LET s == ListOf(f, x) i == IndexOf(s, x) IN IF i < Len(s) THEN s[i+1] ELSE NONE
FirstOf(f, x)  == IF f.kids[x] = <<>> THEN NONE ELSE f.kids[x][1]
LastOf(f, x)   == IF f.kids[x] = <<>> THEN NONE ELSE f.kids[x][Len(f.kids[x])]

RECURSIVE AncSeq(_, _)
AncSeq(f, x)    == IF ParentOf(f, x) = NONE THEN <<x>> ELSE <<x>> \o AncSeq(f, ParentOf(f, x))
ProperAnc(f, x) == Rng(AncSeq(f, x)) \ {x}

RECURSIVE PreSeq(_, _), PreList(_, _)
PreSeq(f, x)  == <<x>> \o PreList(f, f.kids[x])
PreList(f, s) == IF s = <<>> THEN <<>> ELSE PreSeq(f, Head(s)) \o PreList(f, Tail(s))
Desc(f, x)    == Rng(PreSeq(f, x))

\* every node of the forest lies in exactly one list, once
Partitioned(f, nodes) ==
  /\ \A x \in nodes :
       Cardinality({p \in DOMAIN f.kids : x \in Rng(f.kids[p])})
         + Cardinality({c \in f.tops : x \in Rng(c)}) = 1
  /\ \A p \in DOMAIN f.kids : NoDup(f.kids[p]) /\ Rng(f.kids[p]) \subseteq nodes
  /\ \A c \in f.tops : NoDup(c) /\ c # <<>> /\ Rng(c) \subseteq nodes
  /\ \A p \in DOMAIN f.kids : p \notin nodes => f.kids[p] = <<>>

(***************************************************************************)
(* Editing a forest                                                        *)
(***************************************************************************)
\* replace the list that contains x by `new` (a chain that becomes empty vanishes)
PutList(f, x, new) ==
  LET p == ParentOf(f, x) IN
  IF p # NONE THEN [f EXCEPT !.kids[p] = new]
  ELSE [f EXCEPT !.tops = (@ \ {ChainOf(f, x)}) \cup (IF new = <<>> THEN {} ELSE {new})]

Unlink(f, x)          == PutList(f, x, Without(ListOf(f, x), x))   \* x is in no list afterwards
Detach(f, x)          == LET g == Unlink(f, x) IN [g EXCEPT !.tops = @ \cup {<<x>>}]
AppendChild(f, p, c)  == LET g == Unlink(f, c) IN [g EXCEPT !.kids[p] = Append(@, c)]
PrependChild(f, p, c) == LET g == Unlink(f, c) IN [g EXCEPT !.kids[p] = <<c>> \o @]
InsertAfter(f, t, x)  == LET g == Unlink(f, x) IN PutList(g, t, InsAfter(ListOf(g, t), t, x))
InsertBefore(f, t, x) == LET g == Unlink(f, x) IN PutList(g, t, InsBefore(ListOf(g, t), t, x))
\* x disappears, its children take its place (as one chain if x was parentless)
RemoveOne(f, x)  == LET g == PutList(f, x, Splice(ListOf(f, x), x, f.kids[x]))
                    IN  [g EXCEPT !.kids[x] = <<>>]
\* x and all its descendants disappear
RemoveTree(f, x) == LET D == Desc(f, x)
                        g == Unlink(f, x)
                    IN  [g EXCEPT !.kids = [y \in DOMAIN @ |-> IF y \in D THEN <<>> ELSE @[y]]]
\* a new parentless, childless node (slot may be new or recycled)
AddRoot(f, s)    == [kids |-> IF s \in DOMAIN f.kids THEN f.kids ELSE Append(f.kids, <<>>),
                     tops |-> f.tops \cup {<<s>>}]

(***************************************************************************)
(* The five links a node must report                                       *)
(***************************************************************************)
NoLinks == [parent |-> NONE, prev |-> NONE, next |-> NONE, first |-> NONE, last |-> NONE]
LinkOf(f, L, x) ==
  IF x \notin L THEN NoLinks
  ELSE [parent |-> ParentOf(f, x), prev |-> PrevOf(f, x), next |-> NextOf(f, x),
        first  |-> FirstOf(f, x),  last |-> LastOf(f, x)]

(***************************************************************************)
(* Properties of an ARBITRARY link assignment (not assumed to be a forest).*)
(* L is a function/sequence slot -> link record, live a set of slots.      *)
(* These are the formulas of C01, C02 and C12; they are evaluated both on  *)
(* the links derived from model states and on links read from the real     *)
(* crate.                                                                  *)
(***************************************************************************)
LinkFields == {"parent", "prev", "next", "first", "last"}
Targets(L, x) == { L[x][k] : k \in LinkFields } \ {NONE}

RECURSIVE Follow(_, _, _, _)
\* k steps along link `fld` from x (NONE is absorbing; so is a dangling target)
Follow(L, fld, x, k) == IF k = 0 \/ x = NONE \/ x \notin DOMAIN L THEN x
                        ELSE Follow(L, fld, L[x][fld], k - 1)

KidsSet(L, live, p) == { x \in live : L[x].parent = p }

LiveTargets(L, live) == \A x \in live : Targets(L, x) \subseteq live

SiblingsMutual(L, live) ==
  \A x \in live :
     /\ L[x].next # NONE => (L[x].next \in DOMAIN L /\ L[L[x].next].prev = x
                             /\ L[L[x].next].parent = L[x].parent)
     /\ L[x].prev # NONE => (L[x].prev \in DOMAIN L /\ L[L[x].prev].next = x
                             /\ L[L[x].prev].parent = L[x].parent)
     /\ L[x].next # x /\ L[x].prev # x

ChildChains(L, live) ==
  \A p \in live :
     LET K == KidsSet(L, live, p)
         n == Cardinality(K)
     IN  /\ (L[p].first = NONE) <=> (L[p].last = NONE)
         /\ K = {} <=> L[p].first = NONE
         /\ K # {} =>
              /\ L[p].first \in K /\ L[p].last \in K
              /\ L[L[p].first].prev = NONE /\ L[L[p].last].next = NONE
              /\ { Follow(L, "next", L[p].first, k) : k \in 0..(n-1) } = K
              /\ Follow(L, "next", L[p].first, n - 1) = L[p].last

WellFormed(L, live) ==
  /\ LiveTargets(L, live)
  /\ SiblingsMutual(L, live)
  /\ ChildChains(L, live)

Acyclic(L, live) ==
  LET n == Cardinality(live) IN
  \A x \in live :
     /\ Follow(L, "parent", x, n) = NONE
     /\ Follow(L, "next", x, n) = NONE
     /\ Follow(L, "prev", x, n) = NONE

Bare(L, live) == \A x \in DOMAIN L : x \notin live => L[x] = NoLinks

\* C12: no link of a live node leads to a removed slot (or carries an id of an earlier
\* generation: recorded as a negative number, which is no slot at all)
NoLinkToRemoved(L, live) == \A x \in live : \A t \in Targets(L, x) : t \in live

\* which of the named clauses fail (for diagnostics of rejected real states)
FailedClauses(L, live) ==
  (IF LiveTargets(L, live) THEN {} ELSE {"C01:LiveTargets"}) \cup
  (IF LiveTargets(L, live) /\ ~SiblingsMutual(L, live) THEN {"C01:SiblingsMutual"} ELSE {}) \cup
  (IF LiveTargets(L, live) /\ ~ChildChains(L, live) THEN {"C01:ChildChains"} ELSE {}) \cup
  (IF LiveTargets(L, live) /\ ~Acyclic(L, live) THEN {"C02:Acyclic"} ELSE {}) \cup
  (IF Bare(L, live) THEN {} ELSE {"C12:Bare"}) \cup
  (IF NoLinkToRemoved(L, live) THEN {} ELSE {"C12:LinkedFromLive"})
=============================================================================
