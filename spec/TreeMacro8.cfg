\* MODULE TreeMacro.tla
INIT Init
NEXT Next
CONSTANT MaxK = 8
