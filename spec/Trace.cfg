SPECIFICATION TSpec
CONSTANTS
  MaxSlots = 1000000
  GenCap = 1000000
  RetireMin = 10000
  Policy = "any"
  NVals = 0
  MaxReserve = 1000
CHECK_DEADLOCK FALSE
INVARIANTS NotBad ForestOK C01_WellFormed C02_Acyclic C12_Bare C07_SlotAccounting C06_TokensDistinct
PROPERTIES C03_MovePlacesSubtree C04_RemoveExact C07_Allocation C06_FreshIds C08_PayloadFrame C13_ClearIsFresh C13_ReserveInvisible
POSTCONDITION Accepted
