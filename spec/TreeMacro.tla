----------------------------- MODULE TreeMacro ------------------------------
(***************************************************************************)
(* C15: what tree!(arena, root => { ... }) must build.                     *)
(*                                                                         *)
(* A literal below the root is an ordered forest of k written expressions, *)
(* numbered 1..k in textual order (= pre-order).  It is represented by its *)
(* parent vector par: par[i] \in 0..i-1 is the expression whose braces     *)
(* directly enclose expression i (0 = the root).  A vector is a literal    *)
(* iff every par[i] lies on the path from i-1 up to the root (textual      *)
(* order = pre-order).                                                     *)
(*                                                                         *)
(* Meaning (the property): one node per expression; children of node p are *)
(* the expressions i with par[i] = p in increasing (textual) order,        *)
(* appended after the pre existing children of the root; the expressions   *)
(* are evaluated exactly once each, in the order arena, root, 1, ..., k.   *)
(*                                                                         *)
(* The module also transcribes the flattening loop of the proc macro       *)
(* (stack of nodes and nesting markers producing Append/Nest/Parent        *)
(* actions, the trailing run of Parent actions dropped) and an interpreter *)
(* of the emitted actions, and TLC checks interpreter(flatten(literal)) =  *)
(* meaning for every literal (mechanism-level redundancy).                 *)
(***************************************************************************)
EXTENDS Naturals, Sequences, FiniteSets, TLC, Json

CONSTANT MaxK

\* ancestors-or-self of j in the vector p (j itself first, root 0 last)
RECURSIVE PathUp(_, _)
PathUp(p, j) == IF j = 0 THEN <<0>> ELSE <<j>> \o PathUp(p, p[j])
SeqRng(s) == { s[i] : i \in DOMAIN s }

IsLiteral(p) == \A i \in DOMAIN p : p[i] \in (IF i = 1 THEN {0} ELSE SeqRng(PathUp(p, i - 1)))
Literals(k)  == { p \in [1..k -> 0..(k - 1)] : IsLiteral(p) }

\* --- meaning ---------------------------------------------------------------
KidsOf(p, x) == LET S == { i \in DOMAIN p : p[i] = x } IN
                [n \in 1..Cardinality(S) |-> CHOOSE i \in S : Cardinality({ j \in S : j < i }) = n - 1]
Meaning(p)   == [x \in 0..Len(p) |-> KidsOf(p, x)]
EvalOrder(p) == [i \in 1..(Len(p) + 2) |-> i - 3]     \* -2 = arena, -1 = root, then 1..k  (encoded i-3: -2,-1,0.. shifted below)

\* --- the macro's algorithm -------------------------------------------------
\* stack items: <<"N", i>> node i with its children still to come, <<"M">> nesting marker
RECURSIVE Flatten(_, _, _)
Flatten(p, stack, acts) ==
  IF stack = <<>> THEN acts
  ELSE LET item == stack[Len(stack)]
           rest == SubSeq(stack, 1, Len(stack) - 1)
       IN  IF item[1] = "M" THEN Flatten(p, rest, Append(acts, <<"Parent">>))
           ELSE LET i == item[2]
                    ks == KidsOf(p, i)
                    a1 == Append(acts, <<"Append", i>>)
                IN  IF ks = <<>> THEN Flatten(p, rest, a1)
                    ELSE Flatten(p, rest \o <<<<"M">>>> \o [n \in 1..Len(ks) |-> <<"N", ks[Len(ks) + 1 - n]>>],
                                 Append(a1, <<"Nest">>))
TopStack(p) == LET ks == KidsOf(p, 0) IN [n \in 1..Len(ks) |-> <<"N", ks[Len(ks) + 1 - n]>>]
RECURSIVE DropTrailingParents(_)
DropTrailingParents(a) == IF a # <<>> /\ a[Len(a)] = <<"Parent">> THEN DropTrailingParents(SubSeq(a, 1, Len(a) - 1)) ELSE a
Actions(p) == DropTrailingParents(Flatten(p, TopStack(p), <<>>))

\* interpreter of the emitted code: __node, __last, append_value / parent()
RECURSIVE Interp(_, _, _, _, _)
Interp(acts, node, lst, kids, par) ==
  IF acts = <<>> THEN kids
  ELSE LET a == Head(acts) IN
       CASE a[1] = "Append" -> Interp(Tail(acts), node, a[2], [kids EXCEPT ![node] = Append(@, a[2])], [par EXCEPT ![a[2]] = node])
         [] a[1] = "Nest"   -> Interp(Tail(acts), lst, lst, kids, par)
         [] a[1] = "Parent" -> Interp(Tail(acts), par[node], lst, kids, par)
Built(p) == Interp(Actions(p), 0, 0, [x \in 0..Len(p) |-> <<>>], [x \in 0..Len(p) |-> 0])

MacroCorrect == \A k \in 0..MaxK : \A p \in Literals(k) : Built(p) = Meaning(p)
\* the Append actions appear in textual order: expressions are evaluated once, in order
EvalInOrder  == \A k \in 0..MaxK : \A p \in Literals(k) :
                  SelectSeq(Actions(p), LAMBDA a : a[1] = "Append") = [i \in 1..k |-> <<"Append", i>>]

ASSUME MacroCorrect
ASSUME EvalInOrder
ASSUME \A k \in 0..MaxK :
         PrintT(<<"BUNDLE", ToJson({ [k |-> k, par |-> p, kids |-> [x \in 1..(k + 1) |-> KidsOf(p, x - 1)]] : p \in Literals(k) })>>)
ASSUME PrintT(<<"LITERALS", [k \in 0..MaxK |-> Cardinality(Literals(k))]>>)

VARIABLE x
Init == x = 0
Next == x' = x
=============================================================================
