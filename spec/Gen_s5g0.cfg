SPECIFICATION Spec
CONSTANTS
  MaxSlots = 5
  GenCap = 0
  RetireMin = 1000000
  Policy = "fifo"
  NVals = 0
  MaxReserve = 1
  EmitMode = "full"
VIEW View
CHECK_DEADLOCK FALSE
INVARIANTS Emit
