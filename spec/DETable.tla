------------------------------ MODULE DETable -------------------------------
(***************************************************************************)
(* C10: the expected result of every pull word over {"F","B"} of length    *)
(* <= n+2 on a double-ended iterator over n elements (a deque), printed as *)
(* one JSON line per n.  r[k] is the position (in the forward sequence)    *)
(* yielded by the k-th pull, 0 for None.  The harness applies the table to *)
(* children / preceding_siblings / following_siblings of every node of     *)
(* every reachable state.                                                  *)
(***************************************************************************)
EXTENDS Observers, TLC, Json

CONSTANT MaxLen

Words(k)    == [1..k -> {"F", "B"}]
AllWords(n) == UNION {Words(k) : k \in 1..(n + 2)}
Row(n, w)   == [n |-> n, w |-> w, r |-> Pulls([i \in 1..n |-> i], w)]

\* laws of the abstract deque itself (sanity of the oracle)
DequeLaws ==
  \A n \in 0..MaxLen : \A w \in AllWords(n) :
     LET r == Pulls([i \in 1..n |-> i], w)
         fr == SelectSeq([k \in 1..Len(w) |-> IF w[k] = "F" THEN r[k] ELSE 0], LAMBDA p : p # 0)
         bk == SelectSeq([k \in 1..Len(w) |-> IF w[k] = "B" THEN r[k] ELSE 0], LAMBDA p : p # 0)
         all == SelectSeq(r, LAMBDA p : p # 0)
     IN  /\ \A i, j \in DOMAIN all : i # j => all[i] # all[j]          \* each element at most once
         /\ \A i \in DOMAIN fr : fr[i] = i                              \* front pulls in forward order
         /\ \A i \in DOMAIN bk : bk[i] = n + 1 - i                      \* back pulls in backward order
         /\ Len(w) >= n => Len(all) = n                                 \* ... exactly once
         /\ \A k \in DOMAIN r : r[k] = 0 => \A j \in k..Len(r) : r[j] = 0   \* None stays None

ASSUME DequeLaws
ASSUME \A n \in 0..MaxLen : PrintT(<<"BUNDLE", ToJson({Row(n, w) : w \in AllWords(n)})>>)

VARIABLE x
Init == x = 0
Next == x' = x
=============================================================================
