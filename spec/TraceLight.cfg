\* MODULE Trace.tla
SPECIFICATION TSpec
CONSTANTS
  MaxSlots = 1000000
  GenCap = 1000000
  RetireMin = 10000
  Policy = "any"
  NVals = 0
  MaxReserve = 1000
CHECK_DEADLOCK FALSE
INVARIANTS NotBad
POSTCONDITION Accepted
