"""Driver library of /verif/check (see ./check --help and DESIGN.md)."""
import atexit
import tempfile
import sys, os, json, time, subprocess, hashlib, fcntl, shutil, re, glob, random, gzip

VERIF = os.path.dirname(os.path.dirname(os.path.abspath(__file__)))
WORK = os.path.join(VERIF, "work")
SPEC = os.path.join(VERIF, "spec")
HARN = os.path.join(VERIF, "harness")
REPO = os.path.abspath(os.environ.get("VERIF_REPO", "/repo"))
try:
    SEED = abs(int(os.environ.get("VERIF_SEED", "1") or "1")) % 1000000
except ValueError:
    SEED = 1
NCPU = os.cpu_count() or 4


class ToolError(Exception):
    pass


def log(*a):
    print("[check]", *a, file=sys.stderr, flush=True)


def sh(cmd, cwd=None, env=None, timeout=None, stdin=None, capture=True):
    e = dict(os.environ)
    if env:
        e.update(env)
    p = subprocess.run(cmd, cwd=cwd, env=e, timeout=timeout, stdin=stdin,
                       stdout=subprocess.PIPE if capture else None,
                       stderr=subprocess.STDOUT if capture else None, text=True)
    return p.returncode, (p.stdout or "")


def sha(paths):
    h = hashlib.sha256()
    for p in sorted(paths):
        h.update(p.encode())
        with open(p, "rb") as f:
            h.update(f.read())
    return h.hexdigest()[:16]


def module_files(module_path, seen=None):
    """the .tla files a module depends on through EXTENDS / INSTANCE (those that live in spec/)"""
    seen = seen if seen is not None else set()
    if module_path in seen or not os.path.exists(module_path):
        return seen
    seen.add(module_path)
    txt = open(module_path).read()
    names = []
    for m in re.finditer(r"^\s*EXTENDS\s+(.*)$", txt, re.M):
        names += [x.strip() for x in m.group(1).split(",")]
    names += re.findall(r"INSTANCE\s+(\w+)", txt)
    for n in names:
        for d in (SPEC, os.path.join(SPEC, "mechanisms")):
            module_files(os.path.join(d, n + ".tla"), seen)
    return seen


def spec_hash(module=None, cfg=None):
    """hash of exactly the files a TLC run reads: the module closure + its cfg (+ the bundle extractor)"""
    if module is None:
        files = glob.glob(os.path.join(SPEC, "*.tla")) + glob.glob(os.path.join(SPEC, "mechanisms", "*.tla"))
    else:
        files = list(module_files(os.path.join(SPEC, module)))
    if cfg:
        files.append(cfg)
    files.append(os.path.join(HARN, "src", "main.rs"))
    return sha(files)


def cfg_module(cfg, default):
    first = open(cfg).readline()
    m = re.match(r"\\\* MODULE (\S+)", first)
    return m.group(1) if m else default


class Lock:
    def __init__(self, name):
        os.makedirs(WORK, exist_ok=True)
        self.path = os.path.join(WORK, name + ".lock")

    def __enter__(self):
        self.f = open(self.path, "w")
        fcntl.flock(self.f, fcntl.LOCK_EX)
        return self

    def __exit__(self, *a):
        fcntl.flock(self.f, fcntl.LOCK_UN)
        self.f.close()


# ----------------------------------------------------------------------------------------
# TLC
# ----------------------------------------------------------------------------------------
def tlc_cmd(module, cfg, workers, metadir, extra=()):
    return ["tlc", "-workers", str(workers), "-metadir", metadir, "-cleanup", "-noGenerateSpecTE",
            "-config", cfg] + list(extra) + [module]


def parse_tlc_summary(out):
    m = re.search(r"(\d+) states generated, (\d+) distinct states found, (\d+) states left", out)
    d = {"generated": None, "distinct": None, "depth": None, "ok": "No error has been found" in out}
    if m:
        d["generated"], d["distinct"] = int(m.group(1)), int(m.group(2))
    m = re.search(r"depth of the complete state graph search is (\d+)", out)
    if m:
        d["depth"] = int(m.group(1))
    return d


def run_mc(name, workers=8, timeout=3600, xmx="8g"):
    """Model-checks spec/<name>.cfg (module MC_IndexTree unless the cfg names another one).
    The result depends on the specification only, so it is cached by the hash of spec/."""
    cfg0 = os.path.join(SPEC, name + ".cfg")
    d = os.path.join(WORK, "mc", spec_hash(cfg_module(cfg0, "MC_IndexTree.tla"), cfg0))
    os.makedirs(d, exist_ok=True)
    res = os.path.join(d, name.replace("/", "_") + ".json")
    with Lock("mc-" + name.replace("/", "_")):
        if os.path.exists(res):
            r = json.load(open(res))
            r["cached"] = True
            return r
        cfg = os.path.join(SPEC, name + ".cfg")
        module = "MC_IndexTree.tla"
        first = open(cfg).readline()
        m = re.match(r"\\\* MODULE (\S+)", first)
        if m:
            module = m.group(1)
        meta = os.path.join(WORK, "meta-mc-" + name.replace("/", "_") + "-" + str(os.getpid()))
        t0 = time.time()
        log("TLC model checking", name, "...")
        rc, out = sh(tlc_cmd(module, cfg, workers, meta), cwd=SPEC,
                     env={"JAVA_TOOL_OPTIONS": "-Xmx%s -Xss256m -DTLA-Library=%s" % (xmx, SPEC)}, timeout=timeout)
        shutil.rmtree(meta, ignore_errors=True)
        s = parse_tlc_summary(out)
        cfgtxt = open(cfg).read()
        r = {"config": name, "module": module, "ok": s["ok"] and rc == 0, "states": s["distinct"], "transitions": s["generated"],
             "depth": s["depth"], "wall_s": round(time.time() - t0, 1),
             "invariants": re.findall(r"^INVARIANTS?\s+(.*)$", cfgtxt, re.M), "properties": re.findall(r"^PROPERTIES\s+(.*)$", cfgtxt, re.M),
             "constants": re.findall(r"^\s+(\w+ = \S+)\s*$", cfgtxt, re.M), "cached": False, "at": time.strftime("%Y-%m-%dT%H:%M:%S")}
        if not r["ok"]:
            r["output_tail"] = out[-6000:]
            # a failing model check is a defect of the specification, never of the code
            open(res + ".failed", "w").write(json.dumps(r, indent=1))
            raise ToolError("TLC reports an error for %s (specification problem):\n%s" % (name, out[-3000:]))
        json.dump(r, open(res, "w"), indent=1)
        return r


def run_apalache_stamp():
    """Extra (no verdict depends on it): Apalache discharges the inductive invariant of the stamp
    arithmetic for ARBITRARY MAXSTAMP (spec/apalache/StampInd.tla). Cached by file hash."""
    f = os.path.join(SPEC, "apalache", "StampInd.tla")
    d = os.path.join(WORK, "mc", sha([f]))
    os.makedirs(d, exist_ok=True)
    res = os.path.join(d, "apalache_StampInd.json")
    with Lock("apalache"):
        if os.path.exists(res):
            r = json.load(open(res))
            r["cached"] = True
            return r
        steps = [("base", ["--init=Init", "--inv=IndInv", "--length=0"]), ("step", ["--init=IndInit", "--inv=IndInv", "--length=1"]),
                 ("fresh", ["--init=IndInit", "--inv=FreshInv", "--length=1"])]
        out_dir = os.path.join(WORK, "apalache-out-%d" % os.getpid())
        r = {"obligations": [], "ok": True, "cached": False, "at": time.strftime("%Y-%m-%dT%H:%M:%S")}
        t0 = time.time()
        for name, args in steps:
            try:
                rc, out = sh(["apalache-mc", "check", "--cinit=ConstInit"] + args + ["--out-dir=" + out_dir, "StampInd.tla"], cwd=os.path.dirname(f), timeout=600)
            except subprocess.TimeoutExpired:
                rc, out = -1, "timeout"
            ok = rc == 0 and "NoError" in out
            r["obligations"].append({"name": name, "args": args, "ok": ok})
            r["ok"] = r["ok"] and ok
        shutil.rmtree(out_dir, ignore_errors=True)
        r["wall_s"] = round(time.time() - t0, 1)
        json.dump(r, open(res, "w"), indent=1)
        return r


def run_tlaps_stamp():
    """Extra (no verdict depends on it): TLAPS proves the arithmetic lemmas of spec/tlaps/StampLemmas.tla for every MAXSTAMP."""
    f = os.path.join(SPEC, "tlaps", "StampLemmas.tla")
    d = os.path.join(WORK, "mc", sha([f]))
    os.makedirs(d, exist_ok=True)
    res = os.path.join(d, "tlaps_StampLemmas.json")
    with Lock("tlaps"):
        if os.path.exists(res):
            r = json.load(open(res))
            r["cached"] = True
            return r
        tmp = os.path.join(WORK, "tlaps-%d" % os.getpid())
        os.makedirs(tmp, exist_ok=True)
        shutil.copy(f, tmp)
        t0 = time.time()
        try:
            rc, out = sh(["tlapm", "--threads", "4", "StampLemmas.tla"], cwd=tmp, timeout=600)
        except subprocess.TimeoutExpired:
            rc, out = -1, "timeout"
        shutil.rmtree(tmp, ignore_errors=True)
        m = re.search(r"All (\d+) obligations? proved", out)
        r = {"obligations": int(m.group(1)) if m else 0, "discharged": int(m.group(1)) if m else 0, "ok": bool(m) and rc == 0,
             "checker_cmd": "tlapm --threads 4 spec/tlaps/StampLemmas.tla", "cached": False, "wall_s": round(time.time() - t0, 1), "at": time.strftime("%Y-%m-%dT%H:%M:%S")}
        json.dump(r, open(res, "w"), indent=1)
        return r


def harness_bin(profile="debug", alt=""):
    return os.path.join(WORK, "target" + alt, profile, "itverif")


def ensure_bundles(name, workers=10, timeout=7200):
    """TLC-generated test bundles for spec/<name>.cfg (module Gen): depend on the specification
    only, cached by spec hash. Returns (path, meta)."""
    cfg0 = os.path.join(SPEC, name + ".cfg")
    d = os.path.join(WORK, "bundles", spec_hash(cfg_module(cfg0, "Gen.tla"), cfg0))
    os.makedirs(d, exist_ok=True)
    path = os.path.join(d, name + ".ndjson.gz")
    metap = os.path.join(d, name + ".meta.json")
    with Lock("bundles-" + name):
        if os.path.exists(path) and os.path.exists(metap):
            m = json.load(open(metap))
            m["cached"] = True
            return path, m
        build_harness("debug")
        cfg = os.path.join(SPEC, name + ".cfg")
        first = open(cfg).readline()
        mm = re.match(r"\\\* MODULE (\S+)", first)
        module = mm.group(1) if mm else "Gen.tla"
        meta = os.path.join(WORK, "meta-gen-" + name + "-" + str(os.getpid()))
        t0 = time.time()
        log("TLC generating test bundles", name, "(cached afterwards) ...")
        tmp = path + ".tmp"
        logf = os.path.join(d, name + ".tlc.log")
        cmd = "set -o pipefail; %s | %s extract 2> %s | pigz -1 > %s" % (
            " ".join(tlc_cmd(module, cfg, workers, meta)), harness_bin("debug"), logf, tmp)
        rc, out = sh(["bash", "-c", cmd], cwd=SPEC, env={"JAVA_TOOL_OPTIONS": "-Xmx24g -Xss256m"}, timeout=timeout)
        shutil.rmtree(meta, ignore_errors=True)
        tl = open(logf).read()
        s = parse_tlc_summary(tl)
        if rc != 0 or not s["ok"] or "TRUNCATED-BUNDLE-LINE" in tl:
            raise ToolError("bundle generation failed for %s:\n%s\n%s" % (name, out[-2000:], tl[-3000:]))
        n = 0
        with gzip.open(tmp, "rt") as f:
            for _ in f:
                n += 1
        if name.startswith("Gen") and n != s["distinct"]:
            raise ToolError("bundle generation for %s: %d lines but %s distinct states" % (name, n, s["distinct"]))
        os.rename(tmp, path)
        # older generations of the same bundle set (other spec hashes) are garbage now
        for old in glob.glob(os.path.join(WORK, "bundles", "*", name + ".*")):
            if os.path.dirname(old) != d:
                os.remove(old)
        m = {"config": name, "states": s["distinct"], "transitions": s["generated"], "depth": s["depth"], "lines": n,
             "wall_s": round(time.time() - t0, 1), "cached": False, "at": time.strftime("%Y-%m-%dT%H:%M:%S"),
             "constants": re.findall(r"^\s+(\w+ = \S+)\s*$", open(cfg).read(), re.M)}
        json.dump(m, open(metap, "w"), indent=1)
        return path, m


# ----------------------------------------------------------------------------------------
# harness builds (always against the CURRENT working tree of REPO; cargo tracks the sources)
# ----------------------------------------------------------------------------------------
_copies = set()


def harness_dir():
    if REPO == "/repo":
        return HARN, ""
    tag = "-" + hashlib.sha256(REPO.encode()).hexdigest()[:8]
    # one copy per process (two checks against the same alternative tree may run at the same time; the build output is
    # shared through the target directory, which cargo locks)
    d = os.path.join(WORK, "harness%s-%d" % (tag, os.getpid()))
    if d in _copies:
        return d, tag
    with Lock("harnesscopy" + tag):
        if os.path.exists(d):
            shutil.rmtree(d)
        shutil.copytree(HARN, d, ignore=shutil.ignore_patterns("target"))
        _copies.add(d)
        atexit.register(shutil.rmtree, d, True)
        for fn in ["Cargo.toml"] + [os.path.relpath(p, d) for p in glob.glob(os.path.join(d, "*", "Cargo.toml"))]:
            p = os.path.join(d, fn)
            t = open(p).read().replace('"/repo/', '"%s/' % REPO)
            open(p, "w").write(t)
        cfgp = os.path.join(d, ".cargo", "config.toml")
        t = open(cfgp).read().replace('target-dir = "../work/target"', 'target-dir = "../target%s"' % tag)
        open(cfgp, "w").write(t)
    return d, tag


_built = {}


def build_harness(profile="debug", features=None, threads=False):
    """features: None = default (std, macros, par_iter, deser); else list of indextree features"""
    d, tag = harness_dir()
    if threads and features is None:
        features = ["std", "macros", "par_iter", "deser"]
    key = (profile, tuple(features) if features is not None else None, threads)
    if key in _built:
        return _built[key]
    cmd = ["cargo", "build", "--offline", "--quiet"]
    env = {"CARGO_NET_OFFLINE": "true"}
    alt = tag
    if profile == "release":
        cmd.append("--release")
    if features is not None:
        fs = ["it_" + {"std": "std", "macros": "macros", "par_iter": "par", "deser": "deser"}[f] for f in features]
        if threads:
            fs.append("it_threads")
        cmd += ["--no-default-features", "--features", ",".join(fs)] if fs else ["--no-default-features"]
        alt = tag + "-f" + ("_".join(sorted(features)) or "none") + ("-thr" if threads else "")
        env["CARGO_TARGET_DIR"] = os.path.join(WORK, "target" + alt)
    with Lock("cargo" + alt + profile):
        t0 = time.time()
        rc, out = sh(cmd, cwd=d, env=env, timeout=1800)
    if rc != 0:
        raise ToolError("harness does not build against %s (%s):\n%s" % (REPO, " ".join(cmd), out[-4000:]))
    b = os.path.join(WORK, "target" + alt, profile, "itverif")
    _built[key] = b
    return b


def run_replay(binary, bundles, flags, tag, threads=None, deadline=20, timeout=7200, confirm_hangs=True):
    out = os.path.join(RUN, "replay-%s.json" % tag)
    states = os.path.join(RUN, "states-%s.ndjson" % tag)
    th = threads or max(4, NCPU - 2)
    # the harness may stop reading early (after several calls that do not return): its own exit status counts,
    # not a SIGPIPE of the decompressor
    cmd = "pigz -dc %s | %s replay --bundles - --out %s --states-out %s --threads %d --deadline %d %s; exit ${PIPESTATUS[1]}" % (
        bundles, binary, out, states, th, deadline, " ".join(flags))
    t0 = time.time()
    rc, o = sh(["bash", "-c", cmd], timeout=timeout)
    if rc != 0 or not os.path.exists(out):
        raise ToolError("replay harness failed (rc=%s): %s" % (rc, o[-3000:]))
    r = json.load(open(out))
    r["states_file"] = states
    r["tag"] = tag
    r["bundles_file"] = bundles
    r["flags"] = flags
    if confirm_hangs and any(f["kind"] == "hang" for f in r["findings"]):
        r = _confirm_hangs(r, binary, bundles, flags, tag)
    return r


def _norm_path(path_):
    return json.dumps([[c.get("op"), c.get("a", 0), c.get("b", 0), c.get("v", 0), bool(c.get("checked", False))] for c in path_])


def _confirm_hangs(r, binary, bundles, flags, tag):
    """A call that 'did not return within the deadline' on a loaded machine could be a slow call: every such bundle
    is replayed again ALONE with a 120 s deadline; only a hang that repeats counts."""
    wanted = {}
    for f in r["findings"]:
        if f["kind"] == "hang" and (f.get("case") or {}).get("path") is not None:
            wanted[_norm_path(f["case"]["path"])] = f
    if not wanted:
        return r
    one = os.path.join(RUN, "hang-%s.ndjson.gz" % tag)
    n = 0
    with gzip.open(bundles, "rt") as fin, gzip.open(one, "wt") as fout:
        for line in fin:
            if line.startswith("{") and _norm_path(json.loads(line)["path"]) in wanted:
                fout.write(line)
                n += 1
                if n == len(wanted):
                    break
    confirmed = set()
    if n:
        r2 = run_replay(binary, one, flags, tag + "-hangcheck", threads=2, deadline=120, confirm_hangs=False)
        confirmed = {_norm_path(f["case"]["path"]) for f in r2["findings"] if f["kind"] == "hang" and (f.get("case") or {}).get("path") is not None}
    kept = []
    dropped = 0
    for f in r["findings"]:
        if f["kind"] == "hang" and (f.get("case") or {}).get("path") is not None and _norm_path(f["case"]["path"]) not in confirmed:
            dropped += 1
            continue
        kept.append(f)
    r["findings"] = kept
    r["unconfirmed_hangs_dropped"] = dropped
    if dropped:
        r["violations"]["C02"] = max(0, r["violations"].get("C02", 0) - dropped)
    return r


def run_monitor(states_file, tag):
    if not os.path.exists(states_file) or os.path.getsize(states_file) == 0:
        return {"states": 0, "bad": []}
    meta = os.path.join(RUN, "meta-mon-" + tag)
    rc, out = sh(tlc_cmd("Monitor.tla", os.path.join(SPEC, "Monitor.cfg"), 1, meta), cwd=SPEC,
                 env={"STATES": states_file, "JAVA_TOOL_OPTIONS": "-Xmx8g -Xss512m"}, timeout=3600)
    shutil.rmtree(meta, ignore_errors=True)
    if "MONITOR-DONE" not in out:
        raise ToolError("Monitor.tla did not complete:\n" + out[-3000:])
    n = int(re.search(r'"MONITOR-STATES", (\d+)', out).group(1))
    bad = []
    for m in re.finditer(r'<<"MONITOR-BAD", (\d+), \{([^}]*)\}>>', out):
        bad.append({"index": int(m.group(1)), "clauses": re.findall(r'"([^"]+)"', m.group(2))})
    return {"states": n, "bad": bad}


# ----------------------------------------------------------------------------------------
# known findings
# ----------------------------------------------------------------------------------------
def load_known():
    p = os.path.join(VERIF, "known_findings.json")
    if not os.path.exists(p):
        return []
    return [k for k in json.load(open(p)).get("findings", []) if k.get("status") == "open"]


def is_known(known, prop, f):
    """An open finding matches only the specific input class it names."""
    for k in known:
        if k["property"] != prop:
            continue
        m = k.get("match", {})
        call = (f.get("case") or {}).get("call") or {}
        if m.get("kind") and m["kind"] != f.get("kind"):
            continue
        if m.get("op") and m["op"] != call.get("op"):
            continue
        if m.get("detail_re") and not re.search(m["detail_re"], f.get("detail", "")):
            continue
        return k
    return None


# ----------------------------------------------------------------------------------------
# evidence / verdict
# ----------------------------------------------------------------------------------------
RUN = None


class Verdict:
    def __init__(self, prop, tier, level):
        self.prop, self.tier, self.level = prop, tier, level
        self.t0 = time.time()
        self.violations = []      # findings of THIS property
        self.notes = []           # findings of other properties seen on the way
        self.known_hits = {}
        self.cov = {"states": 0, "transitions": 0, "traces_validated_against_impl": 0, "samples": [],
                    "evaluations": 0, "distinct_nontrivial": 0, "parts": []}
        self.assumptions = []
        self.known = load_known()

    def add_findings(self, findings, source):
        for f in findings:
            f = dict(f)
            f["source"] = source
            if f["prop"] == self.prop:
                k = is_known(self.known, self.prop, f)
                if k:
                    self.known_hits.setdefault(k["id"], [k, 0])[1] += 1
                else:
                    self.violations.append(f)
            else:
                self.notes.append(f)

    def finish(self):
        os.makedirs(os.path.join(VERIF, "evidence"), exist_ok=True)
        os.makedirs(os.path.join(WORK, "replays"), exist_ok=True)
        for kid, (k, n) in self.known_hits.items():
            print("KNOWN-FINDING: property=%s %s (%d cases)" % (self.prop, k["what"], n))
        seen = set()
        for f in self.notes:
            key = (f["prop"], f["kind"])
            if key in seen:
                continue
            seen.add(key)
            print("NOTE: while checking %s a mismatch belonging to %s was seen (%s: %s) - run ./check %s" % (
                self.prop, f["prop"], f["kind"], f["detail"][:160], f["prop"]))
        rc = 0
        paths = []
        for i, f in enumerate(self.violations[:5]):
            p = os.path.join(WORK, "replays", "%s-%s-%d.json" % (self.prop, time.strftime("%Y%m%d%H%M%S"), i))
            json.dump({"property": self.prop, "finding": f, "repo": REPO, "seed": SEED, "tier": self.tier}, open(p, "w"), indent=1)
            paths.append(p)
            print("VIOLATION property=%s replay=%s" % (self.prop, p))
            print("  %s: %s" % (f["kind"], f["detail"][:400]))
            rc = 1
        cov = self.cov
        cov["violating_cases_total"] = len(self.violations)
        cov.setdefault("rule", "Cases are generated from the TLA+ specification: (reachable model state, enabled call) pairs enumerated exhaustively by TLC "
                       "within the slot bound of the bundle configuration (each executed on the real crate), observer / pull-word / rendering / macro cases per "
                       "reachable state, and events of seeded random histories validated by TLC. 'evaluations' counts the comparisons made for this property; "
                       "'distinct_nontrivial' counts executed cases that are distinct by construction (TLC's states are distinct, the calls of a state form a set, "
                       "trace events are distinct steps) and non-trivial: the call changes the projected state or is rejected, the iterator / rendering has at least "
                       "one element beyond the start node, the literal has at least two expressions.")
        ev = {"property_id": self.prop, "tier": self.tier, "seed": SEED, "level": self.level, "coverage": cov,
              "assumptions": self.assumptions, "wall_s": round(time.time() - self.t0, 1), "violations": len(self.violations),
              "repo": REPO, "known_findings_hit": sorted(self.known_hits.keys()),
              "notes_other_properties": sorted({f["prop"] for f in self.notes})}
        evdir = os.path.join(VERIF, "evidence") if REPO == "/repo" else os.path.join(WORK, "evidence-" + hashlib.sha256(REPO.encode()).hexdigest()[:8])
        os.makedirs(evdir, exist_ok=True)
        json.dump(ev, open(os.path.join(evdir, self.prop + ".json"), "w"), indent=1)
        return rc


def add_mc(v, r, what):
    v.cov["states"] += r["states"] or 0
    v.cov["transitions"] += r["transitions"] or 0
    v.cov["parts"].append({"part": "model:" + r["config"], "what": what, "states": r["states"], "transitions": r["transitions"],
                           "depth": r["depth"], "constants": r["constants"], "invariants": r.get("invariants"), "properties": r.get("properties"),
                           "from_cache_keyed_by_spec_hash": r["cached"], "computed_at": r["at"], "wall_s": r["wall_s"]})


def add_replay(v, r, meta, what, props_counted):
    v.cov["traces_validated_against_impl"] += r["bundles"] - r["abandoned_policy"]
    if ("bundles:" + meta["config"]) not in [p_["part"] for p_ in v.cov["parts"]]:
        # the model states / transitions TLC enumerated to produce the bundles (once per configuration)
        v.cov["states"] += meta["states"]
        v.cov["transitions"] += meta["transitions"]
        v.cov["parts"].append({"part": "bundles:" + meta["config"], "what": "TLC exhaustive enumeration of IndexTree.tla that produced the test bundles",
                               "states": meta["states"], "transitions": meta["transitions"], "depth": meta["depth"], "constants": meta["constants"],
                               "from_cache_keyed_by_spec_hash": meta["cached"], "computed_at": meta["at"], "wall_s": meta["wall_s"]})
    n = sum(r["checks"].get(p, 0) for p in props_counted)
    v.cov["evaluations"] += n
    v.cov["distinct_nontrivial"] += r["nontrivial_cases"] if r["cases"] else r["observer_checks"] + r["pull_checks"]
    v.cov["parts"].append({"part": "replay:" + r["tag"], "what": what, "bundles_replayed": r["bundles"],
                           "bundle_config": meta["config"], "bundle_constants": meta["constants"],
                           "model_states": meta["states"], "model_transitions": meta["transitions"],
                           "cases_executed": r["cases"], "nontrivial_cases": r["nontrivial_cases"],
                           "observer_comparisons": r["observer_checks"], "pull_word_runs": r["pull_checks"], "lookup_batteries": r["lookup_checks"],
                           "comparisons_for_this_property": n, "policy_divergences": r["abandoned_policy"], "path_failures": r["path_failures"],
                           "hangs": r["hangs"], "representation_differs_after_clear_not_a_verdict": r.get("repr_differs_after_clear", 0), "distinct_real_states": r["distinct_real_states"], "result_classes": r["classes"],
                           "debug_assertions": r["debug_assertions"], "digest": r["digest"], "flags": r["flags"], "wall_s": round(r["wall_s"], 1),
                           "bundles_from_cache_keyed_by_spec_hash": meta["cached"]})
    for s in r["samples"][:2]:
        if len(v.cov["samples"]) < 6:
            v.cov["samples"].append(s)
    fs = []
    for f in r["findings"]:
        f = dict(f)
        f["replay_cmd"] = {"bundles": r["bundles_file"], "flags": r["flags"], "profile": "debug" if r["debug_assertions"] else "release"}
        fs.append(f)
    v.add_findings(fs, "replay:" + r["tag"])


# ----------------------------------------------------------------------------------------
# impl -> spec: record traces from the real crate, validate them with TLC (Trace.tla)
# ----------------------------------------------------------------------------------------
def run_deep(binary, tag, depth=300000):
    """a chain of `depth` levels in a child process on a 2 MiB stack: every call must return (see harness/src/deep.rs).
    Returns (summary, findings)."""
    out = os.path.join(RUN, "deep-%s.phases" % tag)
    timed_out = False
    try:
        rc, o = sh([binary, "deep", "--depth", str(depth), "--out", out], timeout=120)
    except subprocess.TimeoutExpired:
        rc, o, timed_out = -1, "", True
    phases = [l.strip() for l in open(out)] if os.path.exists(out) else []
    last_call = [p for p in phases if not p.startswith(("WRONG", "PANIC", "done"))]
    last_call = last_call[-1] if last_call else "build"
    props = [x for x in last_call.split(":")[0].split(",") if x.startswith("C")] or ["C03"]
    prop = props[0]
    fs = []
    case = {"depth": depth, "phases": phases, "exit": rc, "how": "itverif deep --depth %d (a chain: node i is the only child of node i-1; thread with a 2 MiB stack)" % depth}
    if timed_out:
        d = "on a chain of %d levels the call in phase '%s' did not return within 120 s" % (depth, last_call)
        fs = [{"prop": "C02", "kind": "deep:hang", "detail": d, "case": case}, {"prop": prop, "kind": "deep:hang", "detail": d, "case": case}]
    elif phases and phases[-1] == "done" and rc == 0:
        pass
    elif phases and phases[-1].startswith("WRONG"):
        fs = [{"prop": prop, "kind": "deep:wrong", "detail": "on a chain of %d levels: %s" % (depth, phases[-1][6:]), "case": case}]
    elif phases and phases[-1] == "PANIC":
        d = "on a chain of %d levels the call in phase '%s' panicked" % (depth, last_call)
        fs = [{"prop": "C05", "kind": "deep:panic", "detail": d, "case": case}] + ([{"prop": prop, "kind": "deep:panic", "detail": d, "case": case}] if prop != "C05" else [])
    elif rc < 0 or rc in (134, 139):
        d = "on a chain of %d levels the process was ended by signal %s during phase '%s' (stack use that grows with the depth of the tree): the call does not return" % (depth, -rc if rc < 0 else rc - 128, last_call)
        fs = [{"prop": "C02", "kind": "deep:abort", "detail": d, "case": case}, {"prop": prop, "kind": "deep:abort", "detail": d, "case": case}]
    else:
        raise ToolError("deep harness failed (rc=%s): %s %s" % (rc, o[-1000:], phases[-3:]))
    # a phase may belong to several properties ("C04,C07:remove_subtree")
    for f in list(fs):
        if f["prop"] == prop:
            fs += [dict(f, prop=q) for q in props[1:]]
    return {"depth": depth, "phases_completed": len([p for p in phases if p not in ("done",)]), "exit": rc}, fs


def jvm_par(per_jvm_gb=4):
    """how many TLC processes may run at once: bounded by the memory that is available right now (the box has no swap;
    several checks may be running at the same time)"""
    try:
        avail = [int(l.split()[1]) for l in open("/proc/meminfo") if l.startswith("MemAvailable:")][0] // (1024 * 1024)
    except Exception:  # noqa
        avail = 16
    return max(2, min(NCPU - 2, avail // per_jvm_gb))


def run_parallel(jobs, maxpar, retry_killed=False):
    """jobs: list of (key, cmd, cwd, env, timeout). Returns {key: (rc, out, timed_out)}.
    retry_killed: a job that was killed by a signal it did not get from here (out-of-memory killer) is run once more, alone."""
    res = _run_parallel(jobs, maxpar)
    if retry_killed:
        for j in jobs:
            rc, out, to = res[j[0]]
            if not to and (rc < 0 or rc == 137):
                time.sleep(5)
                res.update(_run_parallel([j], 1))
    return res


def _run_parallel(jobs, maxpar):
    res, running, queue = {}, [], list(jobs)
    while queue or running:
        while queue and len(running) < maxpar:
            key, cmd, cwd, env, to = queue.pop(0)
            e = dict(os.environ)
            e.update(env or {})
            # output goes to a file: a child that prints more than a pipe holds (TLC error traces) must not block
            of = tempfile.TemporaryFile(mode="w+", dir=RUN if RUN and os.path.isdir(RUN) else None)
            p = subprocess.Popen(cmd, cwd=cwd, env=e, stdout=of, stderr=subprocess.STDOUT, text=True)
            p._outfile = of
            running.append((key, p, time.time(), to))
        time.sleep(0.05)
        for it in list(running):
            key, p, t0, to = it
            done = p.poll() is not None
            timed_out = (not done) and time.time() - t0 > to
            if timed_out:
                p.kill()
                p.wait()
            if done or timed_out:
                p._outfile.seek(0)
                out = p._outfile.read()
                p._outfile.close()
                res[key] = ((-9 if timed_out else p.returncode), out[-2000000:], timed_out)
                running.remove(it)
    return res


INV_PROP = {"C01_WellFormed": "C01", "C02_Acyclic": "C02", "C12_Bare": "C12", "C07_SlotAccounting": "C07", "C06_TokensDistinct": "C06",
            "C03_MovePlacesSubtree": "C03", "C04_RemoveExact": "C04", "C07_Allocation": "C07", "C06_FreshIds": "C06",
            "C08_PayloadFrame": "C08", "C13_ClearIsFresh": "C13", "C13_ReserveInvisible": "C13", "ForestOK": "C01"}


def run_traces(binary, specs, tag, record_timeout=90, tlc_timeout=3600):
    """specs: list of dict(mix=, seed=, events=, segment=, max_slots=, extra=[...])."""
    d = os.path.join(RUN, "traces-" + tag)
    os.makedirs(d, exist_ok=True)
    jobs = []
    for i, s in enumerate(specs):
        s["file"] = os.path.join(d, "t%02d-%s.ndjson" % (i, s["mix"]))
        cmd = [binary, "record", "--out", s["file"], "--seed", str(s["seed"]), "--mix", s["mix"], "--events", str(s.get("events", 1000)),
               "--segment", str(s.get("segment", 400)), "--max-slots", str(s.get("max_slots", 10))] + s.get("extra", [])
        jobs.append((i, cmd, None, None, record_timeout))
    rec = run_parallel(jobs, NCPU)
    findings, traces = [], []
    vjobs = []
    for i, s in enumerate(specs):
        rc, out, to = rec[i]
        if to:
            pend = s["file"] + ".pending"
            call = json.load(open(pend)) if os.path.exists(pend) else None
            findings.append({"prop": "C02", "kind": "hang", "detail": "a call did not return within %d s while recording a trace: %s" % (record_timeout, json.dumps(call)),
                             "case": {"trace": s["file"], "pending": call, "spec": {k: v for k, v in s.items() if k != "file"}}})
            continue
        if rc != 0:
            raise ToolError("trace recorder failed (rc=%s): %s" % (rc, out[-2000:]))
        meta = os.path.join(d, "meta-%02d" % i)
        vjobs.append((i, tlc_cmd("Trace.tla", os.path.join(SPEC, s.get("cfg", "Trace") + ".cfg"), 1, meta), SPEC,
                      {"TRACE": s["file"], "JAVA_TOOL_OPTIONS": "-Xmx3g -Xss512m -XX:ActiveProcessorCount=2"}, tlc_timeout))
    # C06 on the call history alone (ChurnMonitor.tla) for the generation-counter boundary runs
    for i, s in enumerate(specs):
        if s["mix"].startswith("boundary") and i in rec and not rec[i][2] and rec[i][0] == 0:
            meta = os.path.join(d, "metac-%02d" % i)
            vjobs.append(("churn-%d" % i, tlc_cmd("ChurnMonitor.tla", os.path.join(SPEC, "ChurnMonitor.cfg"), 1, meta), SPEC,
                          {"TRACE": s["file"], "JAVA_TOOL_OPTIONS": "-Xmx3g -Xss512m -XX:ActiveProcessorCount=2"}, tlc_timeout))
    val = run_parallel(vjobs, jvm_par(), retry_killed=True)
    for i, s in enumerate(specs):
        key = "churn-%d" % i
        if key not in val:
            continue
        rc, out, to = val[key]
        shutil.rmtree(os.path.join(d, "metac-%02d" % i), ignore_errors=True)
        if to or "CHURN-DONE" not in out:
            raise ToolError("ChurnMonitor did not complete on %s:\n%s" % (s["file"], out[-2000:]))
        mm = re.search(r'<<"CHURN-MISMATCH", (\d+), "([^"]+)", "(.*)">>', out)
        if mm:
            ev = mm.group(3).replace('\\"', '"')
            prop_, kind_ = mm.group(2).split(":", 1)
            findings.append({"prop": prop_, "kind": "history:" + kind_,
                             "detail": "event %s of a recorded allocation/removal history violates %s by the call history alone: %s" % (mm.group(1), mm.group(2), ev[:400]),
                             "case": {"trace": s["file"], "event_index": int(mm.group(1)), "spec": {k: v_ for k, v_ in s.items() if k != "file"}}})
    for i, s in enumerate(specs):
        if i not in val:
            continue
        rc, out, to = val[i]
        shutil.rmtree(os.path.join(d, "meta-%02d" % i), ignore_errors=True)
        if to:
            raise ToolError("TLC timed out validating " + s["file"])
        m = re.search(r'"TRACE-LEN", (\d+), "DEPTH", (\d+)', out)
        mm = re.search(r'<<"TRACE-MISMATCH", (\d+), \{([^}]*)\}, "(.*)">>', out)
        t = {"file": s["file"], "mix": s["mix"], "seed": s["seed"], "events": int(m.group(1)) if m else 0, "accepted": False}
        soft = re.findall(r'<<"TRACE-SOFT", (\d+), \{([^}]*)\}>>', out)
        for idx_, cl in soft[:3]:
            for c in re.findall(r'"([^"]+)"', cl):
                prop_, kind_ = c.split(":", 1)
                findings.append({"prop": prop_, "kind": "trace:" + kind_, "detail": "event %s of a recorded history: %s (a removed slot still reports relatives)" % (idx_, c),
                                 "case": {"trace": s["file"], "event_index": int(idx_), "spec": {k: v_ for k, v_ in s.items() if k != "file"}}})
        if mm:
            idx = int(mm.group(1))
            clauses = re.findall(r'"([^"]+)"', mm.group(2))
            ev = mm.group(3).replace('\\"', '"').replace("\\\\", "\\")
            t["rejected_at"] = idx
            t["clauses"] = clauses
            if any(c.startswith("TRACE:") for c in clauses):
                raise ToolError("malformed trace %s at event %d: %s\n%s" % (s["file"], idx, clauses, ev[:600]))
            for c in clauses:
                prop, kind = c.split(":", 1)
                findings.append({"prop": prop, "kind": "trace:" + kind,
                                 "detail": "event %d of a recorded history is not a step of the specification (%s): %s" % (idx, c, ev[:500]),
                                 "case": {"trace": s["file"], "event_index": idx, "event": ev, "spec": {k: v for k, v in s.items() if k != "file"}}})
        elif "is violated" in out:
            inv = re.search(r"(?:Invariant|Action property|property) (\w+) is violated", out)
            name = inv.group(1) if inv else "?"
            # the recorded steps conform to Step() but a property formula fails on them: the model
            # check of the specification would have caught that; report as a tool/spec problem
            raise ToolError("property %s fails on a conforming trace %s - specification inconsistency:\n%s" % (name, s["file"], out[-2500:]))
        elif m and int(m.group(2)) == int(m.group(1)) + 1 and "No error has been found" in out:
            t["accepted"] = not soft
            if soft:
                t["rejected_at"] = int(soft[0][0])
                t["clauses"] = ["C12:removed-links"]
        else:
            raise ToolError("TLC could not validate %s:\n%s" % (s["file"], out[-3000:]))
        traces.append(t)
    return {"traces": traces, "findings": findings, "tag": tag}


def record_only(binary, specs, tag, record_timeout=90):
    """records the histories without validating them; returns {index: (path, sha256) or None}"""
    d = os.path.join(RUN, "traces-" + tag)
    os.makedirs(d, exist_ok=True)
    jobs = []
    for i, s in enumerate(specs):
        f = os.path.join(d, "t%02d-%s.ndjson" % (i, s["mix"]))
        cmd = [binary, "record", "--out", f, "--seed", str(s["seed"]), "--mix", s["mix"], "--events", str(s.get("events", 1000)),
               "--segment", str(s.get("segment", 400)), "--max-slots", str(s.get("max_slots", 10))] + s.get("extra", [])
        jobs.append((i, cmd, None, None, record_timeout))
    rec = run_parallel(jobs, NCPU)
    out = {}
    for i, s in enumerate(specs):
        rc, o, to = rec[i]
        f = os.path.join(d, "t%02d-%s.ndjson" % (i, s["mix"]))
        if to or rc != 0 or not os.path.exists(f):
            out[i] = (f, "recording-failed rc=%s timeout=%s" % (rc, to))
        else:
            out[i] = (f, hashlib.sha256(open(f, "rb").read()).hexdigest())
    return out


def add_traces(v, r, what):
    acc = [t for t in r["traces"] if t["accepted"]]
    v.cov["traces_validated_against_impl"] += len(acc)
    ev = sum(t["events"] for t in acc)
    v.cov["states"] += ev
    v.cov["transitions"] += ev
    v.cov["evaluations"] += ev
    v.cov["distinct_nontrivial"] += ev
    v.cov["parts"].append({"part": "traces:" + r["tag"], "what": what, "traces": len(r["traces"]), "accepted": len(acc), "events_validated": ev,
                           "mixes": sorted({t["mix"] for t in r["traces"]}), "seeds": [t["seed"] for t in r["traces"]],
                           "rejected": [{k: t[k] for k in ("file", "rejected_at", "clauses")} for t in r["traces"] if not t["accepted"]]})
    if acc and len(v.cov["samples"]) < 6:
        with open(acc[0]["file"]) as f:
            lines = [next(f) for _ in range(6)]
        v.cov["samples"].append({"trace_prefix": [json.loads(x) for x in lines[1:4]], "file": acc[0]["file"]})
    v.add_findings(r["findings"], "traces:" + r["tag"])


def add_monitor(v, mon, states_file, source, what, replay=None):
    v.cov["parts"].append({"part": "monitor:" + source, "what": what, "real_states_evaluated": mon["states"], "bad": len(mon["bad"])})
    v.cov["evaluations"] += mon["states"]
    if mon["bad"]:
        lines = open(states_file).read().splitlines()
        fs = []
        for b in mon["bad"][:50]:
            st = json.loads(lines[b["index"] - 1])
            for c in b["clauses"]:
                prop, kind = c.split(":", 1)
                f = {"prop": prop, "kind": "monitor:" + kind, "detail": "a state of the real arena violates %s: links (parent,prev,next,first,last) = %s live = %s" % (c, st["links"], st["live"]),
                     "case": {"state": st, "witness": st.get("w"), "path": (st.get("w") or {}).get("path"), "call": (st.get("w") or {}).get("call")}}
                if replay:
                    f["replay_cmd"] = {"bundles": replay["bundles_file"], "flags": replay["flags"], "profile": "debug" if replay["debug_assertions"] else "release", "monitor": True}
                fs.append(f)
        v.add_findings(fs, "monitor:" + source)
