"""C15: turns the literals enumerated by TLC (spec/TreeMacro.tla) into tree! invocations."""
import json


def literal_text(par, kids, x, variant, depth=0, wrap="%di64"):
    """text of the children block of node x (0 = root): '{ a => { ... }, b, }'"""
    items = []
    for i in kids[x]:
        w = wrap
        if wrap == "%di64" and (variant + 2 * i) % 4 == 1:
            w = "%di32.into()"           # an expression whose type is only fixed by the arena's payload type
        elif wrap == "%di64" and (variant + i) % 3 == 2:
            # an expression that mentions locals of the caller whose names a macro might use for its own variables
            w = "(%di64 + parent + node + root + temp + child + id + value + index + cursor + last + current)"
        expr = "{ lg(%d); %s }" % (i, w % i)
        if kids[i]:
            items.append("%s => %s" % (expr, literal_text(par, kids, i, variant + i, depth + 1, wrap)))
        else:
            # leaf spellings: `x` or `x => {}`
            items.append(expr + (" => {}" if (variant + i) % 3 == 0 else ""))
    trailing = "," if (variant + depth) % 2 == 0 and items else ""
    return "{ " + ", ".join(items) + trailing + " }"


def gen_cases(cases):
    """cases: list of dict(k, par, kids) with kids[0] = root's children ... (index = label)"""
    src, calls, expect = [], [], []
    n = 0
    for c in cases:
        k, par = c["k"], c["par"]
        kids = {0: c["kids"][0]}
        for i in range(1, k + 1):
            kids[i] = c["kids"][i]
        for form in ("value", "id0", "id1", "id2", "idfree", "valuefree"):
            if form in ("idfree", "valuefree") and (k < 3 or (len(src) + (form == "idfree")) % 3 != 0):
                continue
            n += 1
            pre = {"value": 0, "id0": 0, "id1": 1, "id2": 2, "idfree": 0, "valuefree": 0}[form]
            body = ["fn case_%d(out: &mut Vec<Value>) {" % n, "    LOG.with(|l| l.borrow_mut().clear());",
                    "    let (parent, node, root, temp, child, id, value, index, cursor, last, current): (i64, i64, i64, i64, i64, i64, i64, i64, i64, i64, i64) = (0, 0, 0, 0, 0, 0, 0, 0, 0, 0, 0);",
                    "    let _ = (parent, node, root, temp, child, id, value, index, cursor, last, current);",
                    "    let mut arena: Arena<i64> = Arena::new();"]
            free_setup = ["    let x1 = arena.new_node(-201i64);", "    let x2 = arena.new_node(-202i64);", "    let x3 = arena.new_node(-203i64);",
                          "    let _ = x2;", "    x1.remove(&mut arena);", "    x3.remove(&mut arena);"]
            if form == "value":
                rootexpr = "{ lg(-1); 0i64 }"
                rootopt = "None"
            elif form == "valuefree":
                # the arena has vacant slots left over from earlier removals: the nodes of the literal do not get consecutive slots
                body += free_setup
                rootexpr = "{ lg(-1); 0i64 }"
                rootopt = "None"
            elif form == "idfree":
                body.append("    let root_id = arena.new_node(0i64);")
                body += free_setup
                rootexpr = "{ lg(-1); root_id }"
                rootopt = "Some(root_id)"
            else:
                body.append("    let root_id = arena.new_node(0i64);")
                for j in range(pre):
                    body.append("    root_id.append_value(%di64, &mut arena);" % (-(100 + j)))
                rootexpr = "{ lg(-1); root_id }"
                rootopt = "Some(root_id)"
            lit = literal_text(par, kids, 0, n)
            # with no children the `=> {...}` part may be omitted altogether, or be empty braces
            if k == 0 and n % 2 == 0:
                inv = "tree!({ lg(-2); &mut arena }, %s)" % rootexpr
            else:
                inv = "tree!({ lg(-2); &mut arena }, %s => %s%s)" % (rootexpr, lit, "," if n % 5 == 0 else "")
            body.append("    let ret = %s;" % inv)
            body.append("    report(out, %d, \"%s\", &arena, ret, %s);" % (n, form, rootopt))
            body.append("}")
            src.append("\n".join(body))
            calls.append("    case_%d(out);" % n)
            ek = {str(i): kids[i] for i in range(1, k + 1)}
            ek["0"] = [-(100 + j) for j in range(pre)] + kids[0]
            for j in range(pre):
                ek[str(-(100 + j))] = []
            cnt = k + 1 + pre
            if form in ("idfree", "valuefree"):
                ek["-202"] = []
                # slots: root (idfree: its own; valuefree: recycled or new) + x1, x2, x3; two of them vacant and recycled first
                new_nodes = k + (1 if form == "valuefree" else 0)
                cnt = (4 if form == "idfree" else 3) + max(0, new_nodes - 2)
            expect.append({"n": n, "form": form, "k": k, "par": par, "kids": ek, "log": [-2, -1] + list(range(1, k + 1)),
                           "count": cnt, "text": inv})
    # the same literals with a payload type that has a destructor (every third shape, two root forms)
    for ci, c in enumerate(cases):
        if ci % 3 != 1:
            continue
        k, par = c["k"], c["par"]
        kids = {0: c["kids"][0]}
        for i in range(1, k + 1):
            kids[i] = c["kids"][i]
        for form in ("value", "id1"):
            n += 1
            pre = {"value": 0, "id1": 1}[form]
            body = ["fn case_%d(out: &mut Vec<Value>) {" % n, "    LOG.with(|l| l.borrow_mut().clear());",
                    "    let drops_before = drops_total();", "    let mut arena: Arena<P> = Arena::new();"]
            if form == "value":
                rootexpr = "{ lg(-1); P(0) }"
                rootopt = "None"
            else:
                body.append("    let root_id = arena.new_node(P(0));")
                body.append("    root_id.append_value(P(-100), &mut arena);")
                rootexpr = "{ lg(-1); root_id }"
                rootopt = "Some(root_id)"
            lit = literal_text(par, kids, 0, n, 0, "P(%d)")
            inv = "tree!({ lg(-2); &mut arena }, %s => %s)" % (rootexpr, lit)
            body.append("    let ret = %s;" % inv)
            body.append("    report_p(out, %d, \"%s\", arena, ret, %s, drops_before);" % (n, form + "+drop", rootopt))
            body.append("}")
            src.append("\n".join(body))
            calls.append("    case_%d(out);" % n)
            ek = {str(i): kids[i] for i in range(1, k + 1)}
            ek["0"] = [-(100 + j) for j in range(pre)] + kids[0]
            for j in range(pre):
                ek[str(-(100 + j))] = []
            expect.append({"n": n, "form": form + "+drop", "k": k, "par": par, "kids": ek, "log": [-2, -1] + list(range(1, k + 1)),
                           "count": k + 1 + pre, "text": inv, "drops": True})
    # the same literals in an arena whose payloads are themselves NodeIds (of another arena): inside the braces every
    # expression is a payload and creates a node, whatever its type (every third shape; the root is given as a node)
    for ci, c in enumerate(cases):
        if ci % 3 != 2:
            continue
        k, par = c["k"], c["par"]
        kids = {0: c["kids"][0]}
        for i in range(1, k + 1):
            kids[i] = c["kids"][i]
        n += 1
        body = ["fn case_%d(out: &mut Vec<Value>) {" % n, "    LOG.with(|l| l.borrow_mut().clear());",
                "    let mut docs: Arena<i64> = Arena::new();",
                "    let d: Vec<NodeId> = (0..%d).map(|i| docs.new_node(i as i64)).collect();" % (k + 3),
                "    let mut arena: Arena<NodeId> = Arena::new();",
                # an unrelated tree first, so that the payload ids coincide with ids of nodes of `arena` itself
                "    let other = arena.new_node(d[%d]);" % (k + 1),
                "    other.append_value(d[%d], &mut arena);" % (k + 2),
                "    let root_id = arena.new_node(d[0]);"]
        lit = literal_text(par, kids, 0, n, 0, "d[%d]")
        inv = "tree!({ lg(-2); &mut arena }, { lg(-1); root_id } => %s)" % lit
        body.append("    let ret = %s;" % inv)
        body.append("    report_n(out, %d, \"id0+idpayload\", &arena, &docs, ret, Some(root_id));" % n)
        body.append("}")
        src.append("\n".join(body))
        calls.append("    case_%d(out);" % n)
        ek = {str(i): kids[i] for i in range(1, k + 1)}
        ek["0"] = list(kids[0])
        ek[str(k + 1)] = [k + 2]
        ek[str(k + 2)] = []
        expect.append({"n": n, "form": "id0+idpayload", "k": k, "par": par, "kids": ek, "log": [-2, -1] + list(range(1, k + 1)),
                       "count": k + 3, "text": inv + "   (Arena<NodeId>, d[i] = id of node i of another arena)"})
    src.append("fn run_all(out: &mut Vec<Value>) {\n" + "\n".join(calls) + "\n}")
    return "\n\n".join(src) + "\n", expect


def compare(expect, got):
    """returns list of findings"""
    fs = []
    g = {x["n"]: x for x in got}
    for e in expect:
        o = g.get(e["n"])
        bad = []
        if o is None:
            bad.append("case did not run")
        else:
            if o["kids"] != e["kids"]:
                bad.append("children lists %s expected %s" % (json.dumps(o["kids"], sort_keys=True), json.dumps(e["kids"], sort_keys=True)))
            if o["log"] != e["log"]:
                bad.append("evaluation order %s expected %s" % (o["log"], e["log"]))
            if o["count"] != e["count"]:
                bad.append("%d nodes created, expected %d" % (o["count"], e["count"]))
            if o["ret_payload"] != 0 or not o["ret_parent_none"] or o["ret_is_given_root"] is False:
                bad.append("returned id is not the root")
            if e.get("drops") and (o.get("drops_while_alive") != 0 or not o.get("each_dropped_once_with_arena")):
                bad.append("payload destructors: %s ran while the arena was alive, each-once-with-the-arena=%s" % (o.get("drops_while_alive"), o.get("each_dropped_once_with_arena")))
        for b in bad:
            fs.append({"prop": "C15", "kind": "macro", "detail": "%s: %s" % (e["text"], b), "case": {"invocation": e["text"], "expected": e, "observed": o}})
            if b.startswith("payload destructors"):
                # C08: each payload is dropped exactly once and never while its node is live - also for nodes created by tree!
                fs.append({"prop": "C08", "kind": "macro-drops", "detail": "%s: %s" % (e["text"], b), "case": {"invocation": e["text"], "expected": e, "observed": o}})
    return fs
