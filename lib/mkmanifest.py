#!/usr/bin/env python3
"""Writes /verif/MANIFEST.json (kept in one place so that it always validates)."""
import json, os
VERIF = os.path.dirname(os.path.dirname(os.path.abspath(__file__)))
props = [json.loads(l) for l in open(os.path.join(VERIF, "properties.jsonl"))]

TRUST = ("TLC 1.8 and the CommunityModules Json/IOUtils; the Rust harness projection (public accessor calls only), serde_json, catch_unwind; "
         "exhaustive only within the stated slot bounds, seeded random histories beyond them; node arguments are the newest id of a slot "
         "(stale ids of recycled slots and ids of other arenas are outside 'valid calls').")

CLAIMS = {
 "C01": ("model_checking", "WellFormed(links, live) of Forest.tla is an invariant of IndexTree.tla (TLC, all reachable model states); binding: every call from every reachable model state <=4 slots (quick; <=5 thorough) is executed on the real crate in debug and release builds and TLC evaluates the same formula on every distinct real state (Monitor.tla), plus recorded random histories validated step by step (Trace.tla).", "4/C01",
         "TLA+ invariant + TLC; bundle replay; Monitor.tla on real states; trace validation"),
 "C02": ("model_checking", "Acyclic(links, live) invariant in the model; every (target, moved) pair from every reachable model state executed on the real crate with a per-call watchdog (a call that does not return is a violation), every iterator consumed with a bound and compared with the specification's sequence; Monitor.tla evaluates Acyclic on real states.", "4/C02",
         "TLA+ invariant + TLC; bundle replay with watchdog; Monitor.tla; trace validation"),
 "C03": ("model_checking", "Effect of append/prepend/insert_before/insert_after/append_value/detach is a deterministic Forest.tla operator; independent action property C03_MovePlacesSubtree checked by TLC; binding: all links of all slots after every such call from every reachable model state equal the specification's post-state (this is the frame condition), append_value == new_node+append by the crate's own ==; recorded histories validated by Trace.tla.", "4/C03",
         "TLA+ action property + TLC; exhaustive bundle replay; trace validation"),
 "C04": ("model_checking", "remove/remove_subtree as Forest.tla operators, independent action property C04_RemoveExact (parent function + chain pre-orders); replay of every live x in every reachable model state, links and removed flags of all slots compared; trace validation.", "4/C04",
         "TLA+ action property + TLC; exhaustive bundle replay; trace validation"),
 "C05": ("model_checking", "Reasons(a,b) in the specification; all 8 insert entry points x all ordered pairs of known ids x all reachable model states executed under catch_unwind in debug AND release builds: result class must be one the specification allows, on failure the crate's own == against a snapshot must hold; failing-call-heavy recorded histories validated by Trace.tla in both build modes.", "4/C05",
         "TLA+ spec of failure reasons; exhaustive bundle replay (debug+release); trace validation"),
 "C06": ("model_checking", "Ids are opaque tokens numbered through NodeId's own Eq/Hash; freshness of every issued id and is_removed of every id ever issued checked after every call of the exhaustive replay (generations kept in the fingerprint up to GenCap) and in recorded histories; the end of the per-slot generation counter is reached by state injection (quick; checked == against real cycling in thorough) and by 32 790 real cycles (thorough), validated by Trace.tla (RetireMin = 10000).", "4/C06",
         "TLA+ action property C06_FreshIds; bundle replay; trace validation incl. generation-counter boundary"),
 "C07": ("model_checking", "Slot accounting invariant and allocation action property in the model (any reusable slot allowed, retirement only after RetireMin reuses); binding: slot returned, count(), frame, and the drain of a clone (allocate until count() grows) must equal the specification's reusable set after EVERY call, exhaustively <=4/5 slots and in recorded histories up to 24 slots, including the boundary runs of C06.", "4/C07",
         "TLA+ invariant/action property; bundle replay with free-set drain; trace validation"),
 "C08": ("model_checking", "val frame + drops in Step(); replay compares the payload read back from every slot after every call; a non-Clone payload type with identity and destructor (every case rebuilt from its path) checks exactly the payloads named by the specification are dropped, once, never while live; traces with writes through get_mut/IndexMut/iter_mut.", "4/C08",
         "TLA+ action property C08_PayloadFrame; bundle replay with tracked payloads; trace validation"),
 "C09": ("model_checking", "Declarative definitions of all nine traversals and of next_traverse/prev_traverse in Observers.tla; TLC emits their value for every live node of every reachable model state; the real iterators (bounded) must produce exactly these; observe events in recorded histories.", "4/C09",
         "TLA+ observer definitions; exhaustive comparison per state; trace validation of observe events"),
 "C10": ("model_checking", "A double-ended iterator is a deque (Observers!Pulls); TLC emits the result of every pull word of length <= n+2 and checks the deque laws; children/preceding_siblings/following_siblings from every node of every reachable model state are consumed under every pull word and via rev().", "4/C10",
         "TLA+ deque oracle table from TLC; exhaustive pull-word replay"),
 "C11": ("model_checking", "IdAtSeq/count/is_empty from the specification; get, Index, get_mut-free address equality, get_node_id, get_node_id_at for positions 1..count+2, usize/NonZeroUsize/Display, iter/as_slice agreement, foreign node references (clone and unrelated arena) at every reachable model state.", "4/C11",
         "TLA+ lookup observers; exhaustive comparison per state"),
 "C12": ("model_checking", "Bare(links, live) invariant; Reasons contains Removed for every insert with a removed id; append_value on a removed parent must panic and change nothing; Monitor.tla evaluates Bare on all slots of real states; replay rows with removed ids in either position for the 8 inserts and append_value, debug and release.", "4/C12",
         "TLA+ invariant; Monitor.tla on real states; exhaustive bundle replay; trace validation"),
 "C13": ("model_checking", "Clear == back to InitState (keeping capLow), Reserve/clone identity on the abstract state; every bundle replayed twice (determinism, equal ids), on with_capacity(n), and again after an arbitrary earlier history followed by clear() (results, links and slot numbering must be those of a new arena); capacity lower bounds; clone_swap / reserve / clear events in traces.", "4/C13",
         "TLA+ action properties; bundle replay fresh vs after-clear vs with_capacity; trace validation"),
 "C16": ("model_checking", "Round trip is the identity on the abstract state: at every reachable model state deserialize(serialize(arena)) == arena, projection / is_removed / reusable slots equal, and every enabled call applied to original and copy gives equal results and == arenas (one-step bisimulation => all continuations within the bound); round_trip events in recorded histories.", "4/C16",
         "TLA+ identity step; exhaustive bundle replay with serde_json round trip; trace validation"),
 "C14": ("model_checking", "Printer.tla defines the rendering structurally (one guide token per ancestor level, TEE/ELL lead, pre-order blocks) and RenderingLaws restates C14's clauses; TLC computes the expected rendering for every reachable forest <=4 nodes (thorough <=5) x every live start node x 6 line-count assignments (1-3 lines, empty middle line) and checks the laws; the real Display/Debug printers in all four format modes are compared line by line. IndentWriter.tla (the writer's state machine) is checked to refine Printer.tla.", "4/C14",
         "TLA+ rendering definition; TLC-generated expected renderings compared with the real printers"),
 "C15": ("translation_validation", "TreeMacro.tla enumerates every literal shape (pre-order parent vectors) up to 6 expressions below the root (thorough 7), defines the tree it denotes and checks the macro's flatten/interpret algorithm against it; each shape x 4 root forms (value, NodeId with 0/1/2 existing children) with rotated leaf / trailing-comma spellings and side-effecting expressions is compiled against the repository's proc macro and run; children lists, evaluation log, node count and returned id are compared with TLC's expectation.", "4/C15",
         "TLA+ enumeration of macro inputs + expected trees; generated programs compiled and compared"),
 "C17": ("exploration", "Rebuild(features) is the identity in the specification: the same exhaustive bundle set is replayed by harness builds with 7 feature sets (quick; all 16 subsets thorough), each must conform to the one specification and the digests of all observations must be identical; par_iter() compared with iter() as multiset and by position.", "4/C17",
         "one TLA+ spec, exhaustive bundle replay under every feature configuration, digest comparison"),
 "C18": ("other", "Readers.tla: all interleavings of concurrent reader cursor machines over one shared, never-written forest give the sequential outputs (TLC). Binding: 16 real threads (thread::scope on one &Arena) and rayon par_iter on thousands of arenas, per-thread logs equal the single-threaded log. The type-level clause is decided by the compiler on an assertion crate (Send+Sync for every T: Send+Sync). 'No unsafe code / no interior mutability' are facts about the source text that the model can only assume: guarded by -F unsafe_code and a source scan, stated as NOT model-based.", "4/C18",
         "TLA+ interleaving model of readers; multi-threaded observation logs; compiler-checked auto traits; source guards"),
}
PENDING = {}

COMMON = (" Bundles: every call from every state reachable within <=4 slots (generation-aware BFS; thorough <=4/GenCap 2 and <=5), from every ordered forest"
          " up to 7 nodes built canonically (thorough 8), and from every forest up to 6 nodes after each possible remove / remove_subtree followed by recycling"
          " all freed slots (thorough 7). Mechanism specifications (spec/mechanisms: Links, ArenaImpl, Stamp, FreeList, CloneFrom, Walk, DEIter, IndentWriter, Readers) are"
          " model-checked to refine the abstract specification. Beyond the bounds of the model, size probes of the implementation (a chain of 300 000 levels,"
          " sibling lists of 700 nodes, 110 000 generations of one slot, capacities of 600 / 1100, in a child process on small stacks) check the values that the"
          " size alone determines; they are drivers of the implementation, not model results. Every bundle state is also reached through"
          " dst.clone_from(&arena) onto a used destination before its calls / observers are compared; recorded histories include forests of 40 - 300 nodes"
          " that are neither chains nor flat lists (mix bushy).")
for k in list(CLAIMS):
    if k in ("C01", "C02", "C03", "C04", "C05", "C06", "C07", "C08", "C09", "C10", "C11", "C12", "C13", "C16"):
        c = CLAIMS[k]
        CLAIMS[k] = (c[0], c[1] + COMMON, c[2], c[3])
checks, na = [], []
for p in props:
    pid = p["id"]
    if pid in CLAIMS:
        cat, text, ref, tech = CLAIMS[pid]
        checks.append({
            "property_id": pid,
            "quick_cmd": "./check %s --tier quick" % pid,
            "thorough_cmd": "./check %s --tier thorough" % pid,
            "evidence_file": "/verif/evidence/%s.json" % pid,
            "replay_cmd_template": "./check %s --replay {path}" % pid,
            "engine": "tla-conformance",
            "level_claimed": {"category": cat, "text": text, "design_ref": "DESIGN.md section " + ref},
            "level_note": TRUST,
            "technique": tech,
        })
    else:
        na.append({"property_id": pid, "reason": PENDING.get(pid, "check under construction in this session (model-based check planned in DESIGN.md section 4); not claimed until it runs")})

m = {
 "version": 1,
 "setup_cmd": "./check setup",
 "hooks": {"guard": "--cfg indextree_verif", "enable": "no source hooks are needed: the public API exposes the whole abstract state (see DESIGN.md 2.6)",
           "baseline_off_cmd": "cd /repo && cargo test --workspace --no-fail-fast --offline", "source_commits": [], "add_only": True},
 "engines": [{"name": "tla-conformance", "path": "/verif/check", "serves_properties": [c["property_id"] for c in checks],
              "kind_free_text": "explicit TLA+ specification (spec/IndexTree.tla) checked by TLC; bound to the crate by replaying TLC-generated test bundles into the real code and by validating recorded traces of the real code against the specification"}],
 "checks": checks,
 "not_applicable": na,
 "notes": "All verdict logic lives in TLA+ (spec/); the Rust harness only drives the public API and compares with values TLC computed. Spec-only TLC results (model checking, bundle generation) are cached under work/ keyed by the hash of spec/.",
}
json.dump(m, open(os.path.join(VERIF, "MANIFEST.json"), "w"), indent=1)
print("MANIFEST.json written:", len(checks), "checks,", len(na), "not_applicable")
