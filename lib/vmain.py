"""Per-property plans of /verif/check."""
import sys, os, json, time, shutil
import vlib
from vlib import *  # noqa

LEVEL = {p: "model_checking" for p in ["C01", "C02", "C03", "C04", "C05", "C06", "C07", "C08", "C09", "C10", "C11", "C12", "C13", "C14", "C16"]}
LEVEL.update({"C15": "translation_validation", "C17": "exploration", "C18": "other"})

# which model-checking configurations back which property (spec-only, cached by spec hash)
MC_QUICK = ["MC_any3"]
MC_THOROUGH = ["MC_any3", "MC_any4", "MC_fifo5"]

OUT_PROPS = ["C01", "C02", "C03", "C04", "C05", "C06", "C07", "C08", "C12", "C13"]
MIXES = {
    "C01": ["move", "tops", "recycle", "mixed"],
    "C02": ["move", "tops", "fail", "mixed"],
    "C03": ["move", "tops", "mixed"],
    "C04": ["recycle", "tops", "mixed"],
    "C05": ["fail", "mixed", "tops"],
    "C06": ["recycle", "mixed"],
    "C07": ["recycle", "mixed", "values"],
    "C08": ["values", "recycle"],
    "C09": ["move", "tops"],
    "C12": ["fail", "recycle", "tops"],
    "C13": ["values", "mixed"],
    "C16": ["values", "recycle"],
}


def trace_specs(prop, tier, n_quick=8, ev_quick=1000, n_thorough=16, ev_thorough=12000):
    mixes = MIXES.get(prop, ["mixed"])
    n, ev = (n_quick, ev_quick) if tier == "quick" else (n_thorough, ev_thorough)
    specs = []
    for i in range(n):
        specs.append({"mix": mixes[i % len(mixes)], "seed": SEED * 1000 + i * 7 + (hash(prop) % 1 if False else int(prop[1:])),
                      "events": ev, "segment": 250 if tier == "quick" else 1500,
                      "max_slots": [6, 10, 14, 8][i % 4] if tier == "quick" else [8, 12, 16, 24][i % 4]})
    return specs


def boundary_specs(tier):
    if tier == "quick":
        return [{"mix": "boundary", "seed": SEED * 100 + k, "events": 0} for k in range(3)]
    return ([{"mix": "boundary", "seed": SEED * 100 + k, "events": 0, "extra": ["--verify-injection", "1"]} for k in range(6)]
            + [{"mix": "boundary-real", "seed": SEED * 100 + k, "events": 0} for k in range(3)])


def check_property(prop, tier):
    v = Verdict(prop, tier, LEVEL[prop])
    v.assumptions = [
        "TLC, the CommunityModules Json/IOUtils, serde_json, catch_unwind and the harness projection (public accessor calls only) are trusted",
        "exhaustive only up to the slot bound of the bundle configuration; beyond it coverage is by seeded random histories",
        "node arguments are the newest id of a slot; stale ids of recycled slots, ids of other arenas and detach/remove of removed ids are outside 'valid calls' and never generated",
    ]
    bundle_cfgs = ["Gen_s4g1"] if tier == "quick" else ["Gen_s4g2", "Gen_s5g0"]

    if prop in OUT_PROPS or prop in ("C16",):
        for m in (MC_QUICK if tier == "quick" else MC_THOROUGH):
            add_mc(v, run_mc(m), "TLC checks every invariant and action property of IndexTree.tla on all reachable model states")

    if prop in OUT_PROPS:
        for cfg in bundle_cfgs:
            path, meta = ensure_bundles(cfg)
            for profile in ("debug", "release"):
                b = build_harness(profile)
                flags = ["--no-lookups"]
                if prop != "C02":
                    flags.append("--no-observers")
                r = run_replay(b, path, flags, "%s-%s-%s" % (prop, cfg, profile))
                add_replay(v, r, meta, "every call enabled in every reachable model state, %s build" % profile, [prop])
                if prop in ("C01", "C02", "C12"):
                    mon = run_monitor(r["states_file"], "%s-%s" % (cfg, profile))
                    add_monitor(v, mon, r["states_file"], "%s-%s" % (cfg, profile),
                                "Forest.tla link-level formulas (WellFormed / Acyclic / Bare) evaluated by TLC on every distinct real state met during replay")
        if prop == "C08":
            path, meta = ensure_bundles(bundle_cfgs[0])
            r = run_replay(build_harness("debug"), path, ["--tracked"], "C08-tracked")
            add_replay(v, r, meta, "payload type with identity and destructor; every case rebuilt from its call path", ["C08"])
        if prop == "C13":
            path, meta = ensure_bundles(bundle_cfgs[0])
            r = run_replay(build_harness("debug"), path, ["--after-clear", "--no-observers", "--no-lookups"], "C13-after-clear")
            add_replay(v, r, meta, "every bundle replayed again after an arbitrary earlier history followed by clear()", ["C13"])
            r = run_replay(build_harness("debug"), path, ["--with-capacity", "7", "--no-observers", "--no-lookups"], "C13-with-capacity")
            add_replay(v, r, meta, "every bundle replayed on Arena::with_capacity(7)", ["C13"])

    if prop in ("C09", "C10", "C11"):
        for cfg in bundle_cfgs:
            path, meta = ensure_bundles(cfg)
            det, _ = ensure_bundles("DETable")
            b = build_harness("debug")
            flags = ["--no-outcomes"] + (["--pulls", "--detable", det + ".plain"] if prop == "C10" else [])
            if prop == "C10":
                sh(["bash", "-c", "pigz -dc %s > %s.plain" % (det, det)])
            r = run_replay(b, path, flags, "%s-%s" % (prop, cfg))
            add_replay(v, r, meta, "every observer from every live node of every reachable model state", [prop])

    if prop == "C16":
        for cfg in bundle_cfgs:
            path, meta = ensure_bundles(cfg)
            r = run_replay(build_harness("debug"), path, ["--roundtrip", "--no-observers", "--no-lookups"], "C16-" + cfg)
            add_replay(v, r, meta, "serde_json round trip at every reachable model state + one-step bisimulation of original and copy under every call", ["C16"])

    if prop in MIXES:
        b = build_harness("release" if prop in ("C05",) and SEED % 2 == 0 else "debug")
        specs = trace_specs(prop, tier)
        if prop in ("C06", "C07"):
            specs += boundary_specs(tier)
        r = run_traces(b, specs, prop)
        add_traces(v, r, "seeded random histories on the real crate validated event by event against IndexTree.tla (Trace.tla), all invariants and action properties evaluated at every step")
        if prop == "C05":
            # and the same in the other build mode
            b2 = build_harness("debug" if b.endswith("release/itverif") else "release")
            r = run_traces(b2, trace_specs(prop, tier, n_quick=4, n_thorough=8), prop + "-otherbuild")
            add_traces(v, r, "the same drivers in the other build mode (debug assertions on/off)")
    return v.finish()


def main(argv):
    import argparse
    ap = argparse.ArgumentParser()
    ap.add_argument("prop")
    ap.add_argument("--tier", default=os.environ.get("VERIF_TIER", "quick"))
    ap.add_argument("--replay", default=None)
    a = ap.parse_args(argv)
    os.makedirs(WORK, exist_ok=True)
    try:
        if a.prop == "setup":
            return setup()
        vlib.RUN = os.path.join(WORK, "run-%s-%s-%d" % (a.prop, a.tier, os.getpid()))
        os.makedirs(vlib.RUN, exist_ok=True)
        if a.replay:
            return replay_file(a.prop, a.replay)
        rc = check_property(a.prop, a.tier)
        if rc == 0:
            shutil.rmtree(vlib.RUN, ignore_errors=True)
        return rc
    except ToolError as e:
        print("TOOL-ERROR:", e, file=sys.stderr)
        return 2
    except subprocess.TimeoutExpired as e:
        print("TOOL-ERROR: timeout", e, file=sys.stderr)
        return 2


def setup():
    """MANIFEST.setup_cmd: build the harness, parse all modules, pre-compute what depends on the spec only."""
    for m in sorted(glob.glob(os.path.join(SPEC, "*.tla"))):
        rc, out = sh(["tla-sany", os.path.basename(m)], cwd=SPEC)
        if rc != 0 or "rror" in out.replace("Semantic errors", "rror"):
            if "*** Errors" in out or rc != 0:
                raise ToolError("SANY: " + m + "\n" + out[-2000:])
    build_harness("debug")
    build_harness("release")
    ensure_bundles("DETable")
    ensure_bundles("Gen_s4g1")
    for m in MC_QUICK:
        run_mc(m)
    print("setup ok")
    return 0


def replay_file(prop, path):
    r = json.load(open(path))
    f = r["finding"]
    print(json.dumps(f, indent=1)[:4000])
    case = f.get("case") or {}
    if "trace" in case:
        print("re-validate with: TRACE=%s tlc -workers 1 -config spec/Trace.cfg spec/Trace.tla" % case["trace"])
    return 1
