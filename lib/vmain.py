"""Per-property plans of /verif/check."""
import hashlib
import sys, os, json, time, shutil, subprocess
import vlib
from vlib import *  # noqa

LEVEL = {p: "model_checking" for p in ["C01", "C02", "C03", "C04", "C05", "C06", "C07", "C08", "C09", "C10", "C11", "C12", "C13", "C14", "C16"]}
LEVEL.update({"C15": "translation_validation", "C17": "exploration", "C18": "other"})

# which model-checking configurations back which property (spec-only, cached by spec hash)
MC_QUICK = ["MC_any3"]
MC_THOROUGH = ["MC_any3", "MC_any4", "MC_fifo5"]

# implementation-shaped mechanism specifications, each model-checked to refine the abstract spec
MECH = {
    "C01": ["mechanisms/Links", "mechanisms/ArenaImpl"], "C02": ["mechanisms/Links", "mechanisms/Walk", "mechanisms/ArenaImpl"],
    "C03": ["mechanisms/Links", "mechanisms/ArenaImpl"], "C04": ["mechanisms/Links", "mechanisms/ArenaImpl"],
    "C05": ["mechanisms/Links", "mechanisms/ArenaImpl"], "C12": ["mechanisms/Links", "mechanisms/ArenaImpl"],
    "C06": ["mechanisms/Stamp", "mechanisms/Stamp_real", "mechanisms/ArenaImpl"], "C07": ["mechanisms/FreeList", "mechanisms/Stamp", "mechanisms/ArenaImpl", "mechanisms/CloneFrom"],
    "C08": ["mechanisms/FreeList", "mechanisms/ArenaImpl"], "C09": ["mechanisms/Walk"], "C10": ["mechanisms/DEIter"],
    "C14": ["mechanisms/IndentWriter"], "C13": ["mechanisms/CloneFrom"],
}
MECH_THOROUGH = {"mechanisms/Links": "mechanisms/Links5", "mechanisms/Readers": "mechanisms/Readers3", "mechanisms/ArenaImpl": "mechanisms/ArenaImpl4"}
MECH_WHAT = {
    "mechanisms/Links": "Links.tla: connect_neighbors / detach_from_siblings / rewrite_parents / transplant / insert_with_neighbors composed as the public calls compose them; TLC checks each call refines the Forest.tla operator, fails exactly when Reasons says so and leaves WellFormed, Acyclic, Bare links",
    "mechanisms/ArenaImpl": "ArenaImpl.tla: the whole arena as implemented (links as NodeIds with stamps, generation arithmetic with a small MAXSTAMP, intrusive free list, every mutator transcribed) refines IndexTree.tla: for every reachable implementation state and every valid call, result class and abstracted post-state equal Step()",
    "mechanisms/Walk": "Walk.tla: the nine iterator cursor machines over every ordered forest up to MaxNodes; output equals the declarative sequence, no element twice, termination (liveness under weak fairness), next_traverse/prev_traverse inverse of each other",
    "mechanisms/Stamp": "Stamp.tla: i16 generation arithmetic with a small MAXSTAMP and several slots, every interleaving of new_node/remove: no id reissued, is_removed law, retirement only at exhaustion",
    "mechanisms/Stamp_real": "Stamp.tla with the real MAXSTAMP = 32767 for one slot (whole counter range and beyond its end)",
    "mechanisms/FreeList": "FreeList.tla: the intrusive first/last/NextFree list refines the abstract FIFO of reusable slots: no cycle, no lost or doubled slot, no live payload overwritten",
    "mechanisms/IndentWriter": "IndentWriter.tla: line_state / indent stack / open_item / close_item / write_str driven by the traversal loop; for every forest up to 4 nodes, every start node and every assignment of 1-3 lines the lines written equal Printer!Rendering",
    "mechanisms/CloneFrom": "CloneFrom.tla: two stored arenas (payload-or-free-list-link and stamp per slot, both ends of the free list) with independent lives; dst.clone_from(&src) as the derived Clone does it, then the same calls on both: the copy equals the source and stays equal, its free list is a proper chain (the variants stale_tail / forget_stamp, which reuse the destination's storage and miss one field, fail - they are the model-level reading of seeded changes R6-C07-m1 and R6-C11-m2)",
    "mechanisms/DEIter": "DEIter.tla: head/tail cursor machine of the double-ended iterators, all three constructors, every pull word up to n+2 on chains up to 6, with and without parent: refines the deque",
}

OUT_PROPS = ["C01", "C02", "C03", "C04", "C05", "C06", "C07", "C08", "C12", "C13"]
MIXES = {
    "C01": ["move", "tops", "recycle", "mixed"],
    "C02": ["move", "tops", "fail", "mixed"],
    "C03": ["move", "tops", "mixed"],
    "C04": ["recycle", "tops", "mixed"],
    "C05": ["fail", "mixed", "tops"],
    "C06": ["recycle", "mixed"],
    "C07": ["recycle", "mixed", "values"],
    "C08": ["values", "recycle"],
    "C09": ["move", "tops"],
    "C10": ["recycle", "tops", "move"],
    "C11": ["recycle", "mixed"],
    "C12": ["fail", "recycle", "tops"],
    "C13": ["values", "mixed"],
    "C16": ["values", "recycle"],
}


def trace_specs(prop, tier, n_quick=8, ev_quick=1000, n_thorough=16, ev_thorough=12000):
    mixes = MIXES.get(prop, ["mixed"])
    n, ev = (n_quick, ev_quick) if tier == "quick" else (n_thorough, ev_thorough)
    specs = []
    for i in range(n):
        specs.append({"mix": mixes[i % len(mixes)], "seed": SEED * 1000 + i * 7 + (hash(prop) % 1 if False else int(prop[1:])),
                      "events": ev, "segment": 250 if tier == "quick" else 1500,
                      "max_slots": [6, 10, 14, 8][i % 4] if tier == "quick" else [8, 12, 16, 24][i % 4]})
    return specs


def deep_specs(tier):
    """very deep chains (ancestor relations over dozens of levels); validated with TraceLight.cfg (conformance of every
    event and full state equality, without re-evaluating the invariants at this size)"""
    if tier == "quick":
        return [{"mix": "deep", "seed": SEED * 10 + k, "events": 0, "cfg": "TraceLight"} for k in range(2)]
    return [{"mix": "deep", "seed": SEED * 10 + k, "events": 40, "cfg": "TraceLight", "extra": ["--depth", str(d)]} for k, d in enumerate([66, 80, 130, 200, 260])]


def wide_specs(tier):
    """sibling lists of 18-30 children and long top-level chains; validated with TraceLight.cfg"""
    if tier == "quick":
        return [{"mix": "wide", "seed": SEED * 10 + k, "events": 40, "cfg": "TraceLight"} for k in range(2)]
    # thorough: also sibling lists beyond 64, 128 and 256 entries (limits hidden in counters / small integer types)
    return ([{"mix": "wide", "seed": SEED * 10 + k, "events": 150, "cfg": "TraceLight"} for k in range(6)]
            + [{"mix": "wide", "seed": SEED * 10 + 6 + k, "events": 60, "cfg": "TraceLight", "extra": ["--width", str(w)]}
               for k, w in enumerate([66, 130, 260])])


def bushy_specs(tier):
    """medium-sized forests that are neither a chain nor a flat list (40 - 300 nodes, fan-out and depth both growing, three
    placement biases), then subtree moves / removals / recycling; validated with TraceLight.cfg"""
    if tier == "quick":
        return ([{"mix": "bushy", "seed": SEED * 10 + k, "events": 40, "cfg": "TraceLight"} for k in range(3)]
                + [{"mix": "bushy", "seed": SEED * 10 + 3, "events": 40, "cfg": "TraceLight", "extra": ["--nodes", "120"]}])
    return ([{"mix": "bushy", "seed": SEED * 10 + k, "events": 120, "cfg": "TraceLight"} for k in range(6)]
            + [{"mix": "bushy", "seed": SEED * 10 + 6 + k, "events": 60, "cfg": "TraceLight", "extra": ["--nodes", str(n)]}
               for k, n in enumerate([130, 180, 260, 300])])


def boundary_specs(tier):
    extra = [{"mix": "boundary-full", "seed": (SEED * 100 + 50) // 2 * 2, "events": 0}, {"mix": "boundary-full", "seed": (SEED * 100 + 50) // 2 * 2 + 1, "events": 0},
             {"mix": "boundary-long", "seed": SEED * 100 + 51, "events": 0}]
    if tier == "quick":
        return [{"mix": "boundary", "seed": SEED * 100 + k, "events": 0} for k in range(4)] + extra
    return (extra + [{"mix": "boundary", "seed": SEED * 100 + k, "events": 0} for k in range(8)]
            + [{"mix": "boundary-real", "seed": SEED * 100 + k, "events": 0} for k in range(3)])


def check_property(prop, tier):
    v = Verdict(prop, tier, LEVEL[prop])
    v.assumptions = [
        "TLC, the CommunityModules Json/IOUtils, serde_json, catch_unwind and the harness projection (public accessor calls only) are trusted",
        "exhaustive only up to the slot bound of the bundle configuration; beyond it coverage is by seeded random histories and by size probes of the implementation (chain of 300 000 levels, lists of 700 siblings, generation-counter runs), which check only what the size determines",
        "node arguments are the newest id of a slot; stale ids of recycled slots, ids of other arenas and detach/remove of removed ids are outside 'valid calls' and never generated",
    ]
    # histories breadth-first up to 4/5 slots + every ordered forest up to 7/8 nodes built by its canonical path
    # + on every forest up to 6/7 nodes: remove / remove_subtree of every node followed by recycling of all freed slots
    # + every forest up to 6/7 nodes with its roots cut into several top-level chains
    bundle_cfgs = (["Gen_s4g1", "GenShapes_k7", "GenRecycled_k6", "GenShapesMulti_k6"] if tier == "quick"
                   else ["Gen_s4g2", "Gen_s5g0", "GenShapes_k8", "GenRecycled_k7", "GenShapesMulti_k7"])

    if prop in OUT_PROPS or prop in ("C16",):
        for m in (MC_QUICK if tier == "quick" else MC_THOROUGH):
            add_mc(v, run_mc(m), "TLC checks every invariant and action property of IndexTree.tla on all reachable model states")
    for m in MECH.get(prop, []):
        name = m if tier == "quick" or not os.path.exists(os.path.join(SPEC, MECH_THOROUGH.get(m, m) + ".cfg")) else MECH_THOROUGH.get(m, m)
        add_mc(v, run_mc(name), MECH_WHAT[m])

    if prop == "C06":
        try:
            a = run_apalache_stamp()
            v.cov["parts"].append({"part": "apalache:StampInd", "what": "EXTRA, no verdict depends on it: Apalache discharges IndInv (base + inductive step) and freshness of every issued stamp for 3 slots and ARBITRARY MAXSTAMP >= 1",
                                   "obligations": a["obligations"], "all_discharged": a["ok"], "from_cache": a["cached"], "wall_s": a.get("wall_s")})
        except Exception as e:  # noqa
            v.cov["parts"].append({"part": "apalache:StampInd", "what": "extra; not run", "error": str(e)[:300]})
        try:
            t = run_tlaps_stamp()
            v.cov["parts"].append({"part": "tlaps:StampLemmas", "what": "EXTRA, no verdict depends on it: TLAPS proves, for every MAXSTAMP, that remove+reuse yields the next stamp (larger than all earlier ones), that removed stamps differ from every earlier live stamp, and that a slot is retired exactly when MAXSTAMP is removed",
                                   "obligations": t["obligations"], "discharged": t["discharged"], "all_proved": t["ok"], "checker_cmd": t["checker_cmd"], "from_cache": t["cached"]})
        except Exception as e:  # noqa
            v.cov["parts"].append({"part": "tlaps:StampLemmas", "what": "extra; not run", "error": str(e)[:300]})

    plain_kinds = set()

    def origin_findings(r, how):
        """C13: what differs ONLY because the arena came to be in another way (capacity, clear, clone, default) is a C13 matter,
        whatever property the difference itself belongs to"""
        out = []
        for f in r["findings"]:
            if f["prop"] != "C13" and (f["prop"], f["kind"]) not in plain_kinds:
                g = dict(f)
                g["prop"] = "C13"
                g["detail"] = "[only on an arena %s; on Arena::new() the same calls conform] %s" % (how, f["detail"])
                out.append(g)
        return out

    if prop in OUT_PROPS:
        for cfg in bundle_cfgs:
            path, meta = ensure_bundles(cfg)
            for profile in ("debug", "release"):
                if cfg.startswith(("GenShapes", "GenRecycled")) and profile == "release" and prop not in ("C01", "C03", "C04", "C05", "C12"):
                    continue
                b = build_harness(profile)
                flags = ["--no-lookups"]
                if prop != "C02":
                    flags.append("--no-observers")
                else:
                    det, _ = ensure_bundles("DETable")
                    sh(["bash", "-c", "pigz -dc %s > %s.plain" % (det, det)])
                    flags += ["--pulls", "--detable", det + ".plain"]
                r = run_replay(b, path, flags, "%s-%s-%s" % (prop, cfg, profile))
                add_replay(v, r, meta, "every call enabled in every reachable model state, %s build" % profile, [prop])
                plain_kinds.update((f["prop"], f["kind"]) for f in r["findings"])
                if prop in ("C01", "C02", "C12"):
                    mon = run_monitor(r["states_file"], "%s-%s" % (cfg, profile))
                    add_monitor(v, mon, r["states_file"], "%s-%s" % (cfg, profile),
                                "Forest.tla link-level formulas (WellFormed / Acyclic / Bare / NoLinkToRemoved) evaluated by TLC on every distinct real state met during replay", replay=r)
        if prop == "C08":
            path, meta = ensure_bundles(bundle_cfgs[0])
            r = run_replay(build_harness("debug"), path, ["--tracked"], "C08-tracked")
            add_replay(v, r, meta, "payload type with identity and destructor; every case rebuilt from its call path", ["C08"])
            r = run_replay(build_harness("debug"), path, ["--after-clear", "--no-observers", "--no-lookups"], "C08-after-clear")
            add_replay(v, r, meta, "every bundle replayed again after an arbitrary earlier history followed by clear() (payload read-back in histories containing clear)", ["C08", "C13"])
        if prop == "C07":
            path, meta = ensure_bundles(bundle_cfgs[0])
            r = run_replay(build_harness("debug"), path, ["--clone-bisim", "--no-observers", "--no-lookups"], "C07-clone-from")
            add_replay(v, r, meta, "slot accounting of an arena that was overwritten by clone_from (a free list carried over from the destination's earlier life would lose or duplicate slots)", ["C07"])
        if prop == "C13":
            path, meta = ensure_bundles(bundle_cfgs[0])
            r = run_replay(build_harness("debug"), path, ["--after-clear", "--no-observers", "--no-lookups"], "C13-after-clear")
            add_replay(v, r, meta, "every bundle replayed again after an arbitrary earlier history followed by clear()", ["C13"])
            r = run_replay(build_harness("debug"), path, ["--clone-bisim", "--no-observers", "--no-lookups"], "C13-clone-bisim")
            add_replay(v, r, meta, "a third of the calls of every state applied to a second original rebuilt from the path: same result, == arena, same reusable slots as on the clone", ["C13"])
            r = run_replay(build_harness("debug"), path, ["--with-capacity", "7", "--no-observers", "--no-lookups"], "C13-with-capacity")
            add_replay(v, r, meta, "every bundle replayed on Arena::with_capacity(7)", ["C13"])
            v.add_findings(origin_findings(r, "created by with_capacity(7)"), "replay:C13-with-capacity")
            r = run_replay(build_harness("release"), path, ["--origin-mix", "--no-observers", "--no-lookups"], "C13-origin")
            add_replay(v, r, meta, "every bundle replayed (release build) on an empty arena that came to be in another way (new / default / with_capacity(0) / clone of an empty arena / filled and cleared / new + reserve / with_capacity(600) / cleared + reserve(1100)), in rotation; reserve(k) with absurd k must not return normally without the room", ["C13"])
            v.add_findings(origin_findings(r, "that came to be in another way (default / with_capacity / clone / clear / reserve, incl. capacities of 600 and 1100)"), "replay:C13-origin")

    if prop in ("C09", "C10", "C11"):
        for cfg in bundle_cfgs:
            path, meta = ensure_bundles(cfg)
            det, _ = ensure_bundles("DETable")
            b = build_harness("debug")
            if prop == "C11" and cfg == bundle_cfgs[0]:
                # lookups again without debug assertions
                r = run_replay(build_harness("release"), path, ["--no-outcomes"], "%s-%s-release" % (prop, cfg))
                add_replay(v, r, meta, "every lookup path at every reachable model state, release build", [prop])
            flags = ["--no-outcomes"] + (["--pulls", "--detable", det + ".plain"] if prop == "C10" else [])
            if prop == "C10":
                sh(["bash", "-c", "pigz -dc %s > %s.plain" % (det, det)])
            r = run_replay(b, path, flags, "%s-%s" % (prop, cfg))
            add_replay(v, r, meta, "every observer from every live node of every reachable model state", [prop])
            if prop == "C10" and cfg.startswith(("GenShapes", "GenRecycled")):
                r = run_replay(b, path, ["--no-observers", "--no-lookups", "--post-pulls", "--detable", det + ".plain"], "C10-post-%s" % cfg)
                add_replay(v, r, meta, "double-ended consumption of every live node's iterators in the state AFTER every successful call on every shape", ["C10"])
                if cfg.startswith("GenShapes"):
                    # again without debug assertions (an assertion that fires inside the call would hide the links it leaves behind)
                    r = run_replay(build_harness("release"), path, ["--no-observers", "--no-lookups", "--post-pulls", "--detable", det + ".plain"], "C10-post-%s-release" % cfg)
                    add_replay(v, r, meta, "the same on a release build", ["C10"])

    if prop in ("C01", "C03", "C04", "C05", "C07", "C08", "C12", "C09", "C10", "C11"):
        # the same comparisons on an arena that came to be through dst.clone_from(&arena) onto a USED destination (the previous
        # bundle's arena): a clone_from that forgets a link, a stamp or a free-list end shows in the property that reads it
        path, meta = ensure_bundles(bundle_cfgs[0])
        if prop in ("C09", "C10", "C11"):
            flags = ["--no-outcomes"]
            if prop == "C10":
                det, _ = ensure_bundles("DETable")
                sh(["bash", "-c", "pigz -dc %s > %s.plain" % (det, det)])
                flags += ["--pulls", "--detable", det + ".plain"]
        else:
            flags = ["--no-observers", "--no-lookups"]
        r = run_replay(build_harness("debug"), path, flags + ["--via-clone-from"], prop + "-via-clone-from")
        add_replay(v, r, meta, "every state reached through clone_from onto a used destination before the calls / observers of the bundle are compared", [prop])

    if prop == "C16":
        for cfg in bundle_cfgs:
            path, meta = ensure_bundles(cfg)
            r = run_replay(build_harness("debug"), path, ["--roundtrip", "--no-observers", "--no-lookups"], "C16-" + cfg)
            add_replay(v, r, meta, "serde_json round trip at every reachable model state + one-step bisimulation of original and copy under every call", ["C16"])

    if prop in ("C02", "C03", "C04", "C05", "C07", "C09", "C10", "C11", "C13", "C14", "C16"):
        # a chain of 300 000 levels (far beyond what TLC or trace validation can hold): the expected values are the obvious
        # functions of the depth; a call whose stack use grows with the depth ends the child process
        for profile in ("debug", "release"):
            summ, fs = vlib.run_deep(build_harness(profile), "%s-%s" % (prop, profile))
            v.cov["evaluations"] += summ["phases_completed"]
            v.cov["parts"].append({"part": "deep-chain:" + profile, "what": "a chain of %d levels built, traversed, edited, serialised, removed and recycled, sibling lists and top-level chains of 700 nodes consumed from both ends, and a chain of 4 000 levels drawn by the printers, in a child process on small stacks (2 MiB / 256 KiB); every call returns with the value the size determines" % summ["depth"], **summ})
            v.add_findings(fs, "deep-chain:" + profile)

    if prop == "C02":
        # "every API call returns" includes formatting a debug_pretty_print proxy: every rendering of the print battery must end
        # (output bounded by 4 MiB, 60 s without progress = does not return); only these findings are taken here, the text is C14's
        cfg = "GenPrint_s4" if tier == "quick" else "GenPrint_s5"
        ppath, pmeta = ensure_bundles(cfg)
        out = os.path.join(vlib.RUN, "print-C02.json")
        rc, o = sh(["bash", "-c", "pigz -dc %s | %s print --out %s; exit ${PIPESTATUS[1]}" % (ppath, build_harness("debug"), out)], timeout=3600)
        if rc != 0:
            raise ToolError("print harness failed: " + o[-2000:])
        r = json.load(open(out))
        v.cov["evaluations"] += r["renderings"]
        v.cov["parts"].append({"part": "print-terminates:" + cfg, "what": "every debug_pretty_print rendering of the print battery (4 modes, every start node, multi-line payloads with empty lines) returns", "renderings": r["renderings"]})
        v.add_findings([f for f in r["findings"] if f["prop"] == "C02"], "print-terminates")

    if prop == "C08":
        # payloads that enter the arena through tree! (root value, node expressions): destructor runs counted per label
        check_c15(v, tier)

    if prop == "C14":
        check_c14(v, tier)
    if prop == "C15":
        check_c15(v, tier)
    if prop == "C17":
        check_c17(v, tier)
    if prop == "C18":
        check_c18(v, tier)

    if prop in MIXES:
        b = build_harness("release" if prop in ("C05",) and SEED % 2 == 0 else "debug")
        specs = trace_specs(prop, tier)
        if prop in ("C06", "C07", "C11", "C16", "C13", "C04", "C05", "C08", "C12"):
            specs += boundary_specs(tier)
        if prop in ("C02", "C05", "C09", "C01"):
            specs += deep_specs(tier)
        if prop in ("C01", "C03", "C04", "C09", "C10"):
            specs += wide_specs(tier)
        if prop in ("C01", "C03", "C04", "C05", "C09", "C12"):
            specs += bushy_specs(tier)
        if prop == "C16":
            # serde round trips with payload types that exercise more of serde's data model
            for i, sp in enumerate(specs):
                sp["extra"] = sp.get("extra", []) + ["--payload", ["u32", "string", "rich", "option"][i % 4]]
        if prop == "C08":
            # payload objects with identity and destructor (the events carry the slots whose destructor ran),
            # and a zero-sized and a large payload type
            for i, sp in enumerate(specs):
                sp["extra"] = sp.get("extra", []) + (["--payload", "zst"] if i % 5 == 3 else ["--payload", "large"] if i % 5 == 4 else ["--tracked-payload"])
        r = run_traces(b, specs, prop)
        if prop in ("C06", "C07", "C11"):
            # the end of the generation counter again without debug assertions (a debug_assert can hide a reissue behind a panic)
            r2 = run_traces(build_harness("release"), boundary_specs(tier) + trace_specs(prop, tier, n_quick=2, n_thorough=4), prop + "-release")
            add_traces(v, r2, "generation-counter boundary and recycle-heavy histories on a release build")
        add_traces(v, r, "seeded random histories on the real crate validated event by event against IndexTree.tla (Trace.tla), all invariants and action properties evaluated at every step")
        if prop == "C05":
            # and the same in the other build mode
            b2 = build_harness("debug" if b.endswith("release/itverif") else "release")
            r = run_traces(b2, trace_specs(prop, tier, n_quick=4, n_thorough=8) + boundary_specs(tier)[:2], prop + "-otherbuild")
            add_traces(v, r, "the same drivers in the other build mode (debug assertions on/off)")
    return v.finish()


def check_c14(v, tier):
    for cfg in (["GenPrint_s4", "GenPrintShapes_k6", "GenPrintDeep"] if tier == "quick" else ["GenPrint_s5", "GenPrintShapes_k7", "GenPrintDeep"]):
        check_c14_cfg(v, tier, cfg)
    v.assumptions.append("payload renderings: 1-3 lines, a 3-line payload has an empty middle line, multi-byte characters, CR LF line ends, CR / TAB / trailing blanks inside lines, written to the formatter in one piece / line by line / character by character; lines whose payload text is empty are compared modulo trailing blanks; a rendering of more than 4 MiB or 60 s without progress counts as 'does not return'")


def check_c14_cfg(v, tier, cfg):
    path, meta = ensure_bundles(cfg)
    for profile in ("debug", "release"):
        b = build_harness(profile)
        out = os.path.join(vlib.RUN, "print-%s-%s.json" % (cfg, profile))
        rc, o = sh(["bash", "-c", "pigz -dc %s | %s print --out %s; exit ${PIPESTATUS[1]}" % (path, b, out)], timeout=3600)
        if rc != 0:
            raise ToolError("print harness failed: " + o[-2000:])
        r = json.load(open(out))
        if ("bundles:" + cfg) not in [p["part"] for p in v.cov["parts"]]:
            v.cov["states"] += meta["states"]
            v.cov["transitions"] += meta["transitions"]
            v.cov["parts"].append({"part": "bundles:" + cfg, "what": "TLC enumerates every reachable forest, computes Printer!Rendering for every live start node under 6 line-count assignments and checks RenderingLaws on each",
                                   "states": meta["states"], "transitions": meta["transitions"], "constants": meta["constants"],
                                   "from_cache_keyed_by_spec_hash": meta["cached"], "computed_at": meta["at"]})
        v.cov["traces_validated_against_impl"] += r["bundles"] - r["abandoned_policy"]
        v.cov["evaluations"] += r["renderings"]
        v.cov["distinct_nontrivial"] += r["multi_line_renderings"]
        v.cov["parts"].append({"part": "print:%s:%s" % (cfg, profile), "what": "debug_pretty_print output of the real crate ({}, {:#}, {:?}, {:#?}) compared line by line with the TLC rendering",
                               **{k: r[k] for k in ("bundles", "renderings", "multi_line_renderings", "lines_compared", "abandoned_policy", "debug_assertions")}})
        v.cov["samples"] += r["samples"][:2]
        v.add_findings(r["findings"], "print:" + profile)


def check_c15(v, tier):
    import macrogen
    cfg = "TreeMacro7" if tier == "quick" else "TreeMacro8"
    path, meta = ensure_bundles(cfg)
    cases = []
    import gzip
    with gzip.open(path, "rt") as f:
        for line in f:
            if line.startswith("["):
                cases += json.loads(line)
    src, expect = macrogen.gen_cases(cases)
    hd, tag = harness_dir()
    d = os.path.join(vlib.RUN, "macrocases")
    shutil.copytree(os.path.join(hd, "macrocases"), d)
    open(os.path.join(d, "src", "cases.rs"), "w").write(src)
    env = {"CARGO_TARGET_DIR": os.path.join(WORK, "target-macro" + tag), "CARGO_NET_OFFLINE": "true"}
    with Lock("cargo-macro" + tag):
        rc, out = sh(["cargo", "build", "--offline", "--quiet"], cwd=d, env=env, timeout=3600)
    if rc != 0:
        # a literal the macro must accept does not compile: that is a violation, not a tool error,
        # unless nothing at all compiles (then the harness itself is broken)
        if "cases.rs" in out and "error" in out:
            v.add_findings([{"prop": "C15", "kind": "macro-rejects-input", "detail": "a generated tree! invocation does not compile: " + out[-1500:], "case": {"compiler_output": out[-4000:]}}], "macro")
            return
        raise ToolError("macro case crate does not build:\n" + out[-3000:])
    rc, out = sh([os.path.join(env["CARGO_TARGET_DIR"], "debug", "macrocases")], timeout=600)
    if rc != 0:
        v.add_findings([{"prop": "C15", "kind": "macro-panics", "detail": "running the generated tree! invocations failed: " + out[-800:], "case": {"output": out[-4000:]}}], "macro")
        return
    got = json.loads(out.strip().splitlines()[-1])
    fs = macrogen.compare(expect, got)
    v.cov.update({"programs": len(expect), "disagreements_checked": len(expect)})
    v.cov["evaluations"] += len(expect)
    v.cov["distinct_nontrivial"] += len([e for e in expect if e["k"] >= 2])
    v.cov["states"] += 1
    v.cov["parts"].append({"part": "macro:" + cfg, "what": "every literal shape enumerated by TLC (TreeMacro.tla, which also checks flatten+interpret = meaning) x 4 root forms, spelling variants rotated; compiled against the repository's proc macro and run",
                           "literal_shapes": len(cases), "invocations": len(expect), "max_nodes_below_root": max(c["k"] for c in cases),
                           "from_cache_keyed_by_spec_hash": meta["cached"]})
    v.cov["samples"] += [{"invocation": e["text"], "expected_children": e["kids"]} for e in expect[57:59]]
    v.add_findings(fs, "macro")


FEATURE_SETS_QUICK = [[], ["std"], ["std", "macros"], ["std", "par_iter"], ["std", "deser"], ["std", "macros", "par_iter", "deser"], ["par_iter", "deser"]]


def check_c17(v, tier):
    import itertools
    sets = FEATURE_SETS_QUICK if tier == "quick" else [list(c) for n in range(5) for c in itertools.combinations(["std", "macros", "par_iter", "deser"], n)]
    cfg = "Gen_s4g1" if tier == "quick" else "Gen_s4g2"
    path, meta = ensure_bundles(cfg)
    digests = {}
    digests_via = {}
    deep_phases = {}
    for fs_ in sets:
        name = "+".join(fs_) or "no_std+alloc"
        b = build_harness("debug", features=fs_, threads=("par_iter" in fs_))
        r = run_replay(b, path, [], "C17-" + (name.replace("+", "_")))
        digests[name] = r["digest"]
        if fs_ == [] or (tier != "quick" and fs_ in (["std"], ["deser"], ["par_iter", "deser"])):
            # the same battery without debug assertions (a check that is a debug_assert in one feature set only shows here)
            br = build_harness("release", features=fs_, threads=("par_iter" in fs_))
            rr = run_replay(br, path, [], "C17-" + (name.replace("+", "_")) + "-release")
            digests[name + " (release)"] = rr["digest"]
            for f in rr["findings"]:
                f["detail"] = "[features: %s, release] %s" % (name, f["detail"])
                f["orig_prop"] = f["prop"]
            add_replay(v, rr, meta, "the exhaustive battery replayed by a RELEASE harness built with indextree features {%s}" % name, OUT_PROPS + ["C09", "C11"])
        # every mismatch with the one specification in a non-default build is a C17 matter
        for f in r["findings"]:
            f["detail"] = "[features: %s] %s" % (name, f["detail"])
            if fs_ != ["std", "macros", "par_iter", "deser"] and fs_ != ["std", "macros"]:
                f["orig_prop"] = f["prop"]
        add_replay(v, r, meta, "the exhaustive battery replayed by a harness built with indextree features {%s}" % name, OUT_PROPS + ["C09", "C11"])
        # the same battery on states reached through clone_from onto a used destination (a Clone impl that exists in one
        # feature set only), and the size probe (limits that exist in one feature set only)
        rv = run_replay(b, path, ["--via-clone-from"], "C17-via-" + (name.replace("+", "_")))
        digests_via[name] = rv["digest"]
        for f in rv["findings"]:
            f["detail"] = "[features: %s, after clone_from] %s" % (name, f["detail"])
            if fs_ != ["std", "macros", "par_iter", "deser"] and fs_ != ["std", "macros"]:
                f["orig_prop"] = f["prop"]
        add_replay(v, rv, meta, "the battery on states reached through clone_from onto a used destination, features {%s}" % name, OUT_PROPS + ["C09", "C11"])
        dsum, dfs = vlib.run_deep(b, "C17-" + name.replace("+", "_"))
        v.cov["evaluations"] += dsum["phases_completed"]
        deep_phases[name] = hashlib.sha256(json.dumps([dsum["exit"], sorted((f["prop"], f["kind"], f["detail"]) for f in dfs)]).encode()).hexdigest()[:16]
        for f in dfs:
            f["detail"] = "[features: %s] %s" % (name, f["detail"])
            if fs_ != ["std", "macros", "par_iter", "deser"] and fs_ != ["std", "macros"]:
                f["orig_prop"] = f["prop"]
        v.add_findings(dfs, "deep-chain:" + name)
        if "par_iter" in fs_:
            out = os.path.join(vlib.RUN, "thr-%s.json" % name.replace("+", "_"))
            try:
                rc, o = sh(["bash", "-c", "pigz -dc %s | %s threads --threads 2 --every 9 --random 6 --seed %d --out %s; exit ${PIPESTATUS[1]}" % (path, b, SEED, out)], timeout=300)
            except subprocess.TimeoutExpired:
                # a call that does not return while the arenas for the reader battery are built
                sh(["pkill", "-f", out])
                v.add_findings([{"prop": "C02", "kind": "hang", "detail": "building arenas for the par_iter comparison did not finish within 300 s (a call does not return)", "case": {}}], "par_iter:" + name)
                continue
            if rc != 0:
                raise ToolError("threads harness failed: " + o[-2000:])
            t = json.load(open(out))
            v.cov["parts"].append({"part": "par_iter:" + name, "what": "par_iter() visits exactly the nodes of iter()", "arenas": t["arenas"], "max_nodes": t["max_nodes"]})
            v.add_findings([f for f in t["findings"] if f["prop"] == "C17"], "par_iter:" + name)
    # recorded histories (same seeds) must be byte-identical under every feature set, and are valid
    # behaviours of the specification (validated once, for the full-featured build)
    tspecs = ([{"mix": "churn200", "seed": SEED * 10 + k, "events": 200, "max_slots": 8} for k in range(2)]
              + [{"mix": "boundary-plain", "seed": SEED * 100 + k, "events": 0} for k in range(2)]
              + [{"mix": "c17", "seed": SEED * 10 + 5 + k, "events": 600 if tier == "quick" else 4000, "segment": 300, "max_slots": 10} for k in range(2 if tier == "quick" else 6)])
    hashes = {}
    for fs_ in sets:
        name = "+".join(fs_) or "no_std+alloc"
        b = build_harness("debug", features=fs_, threads=("par_iter" in fs_))
        hashes[name] = record_only(b, [dict(x) for x in tspecs], "C17-" + name.replace("+", "_"))
    ref = "std+macros+par_iter+deser"
    for name, hs in hashes.items():
        for i, (f, h) in hs.items():
            if h != hashes[ref][i][1]:
                v.add_findings([{"prop": "C17", "kind": "history-differs", "detail": "the history recorded with seed %s / mix %s differs between feature sets {%s} and {%s} (%s vs %s)" % (
                    tspecs[i]["seed"], tspecs[i]["mix"], name, ref, f, hashes[ref][i][0]), "case": {"files": [f, hashes[ref][i][0]], "spec": tspecs[i]}}], "histories")
    rt = run_traces(build_harness("debug", features=["std", "macros", "par_iter", "deser"], threads=True), [dict(x) for x in tspecs], "C17-validate")
    add_traces(v, rt, "the histories compared across feature sets, validated against IndexTree.tla for the full-featured build")
    v.cov["parts"].append({"part": "histories", "what": "sha256 of recorded histories per feature set (must be identical)", "hashes": {k: [h[1][:16] for h in hs.values()] for k, hs in hashes.items()}})
    # pretty-printed text: every rendering of GenPrint_s4 (and renderings of payloads outside the domain of C14: ending in a
    # newline, empty, ending in a blank line - digested only) must be byte-identical in every build
    ppath, pmeta = ensure_bundles("GenPrint_s4")
    pdig = {}
    for fs_ in sets:
        name = "+".join(fs_) or "no_std+alloc"
        b = build_harness("debug", features=fs_, threads=("par_iter" in fs_))
        out = os.path.join(vlib.RUN, "print-C17-%s.json" % name.replace("+", "_"))
        rc, o = sh(["bash", "-c", "pigz -dc %s | %s print --digest-odd --out %s; exit ${PIPESTATUS[1]}" % (ppath, b, out)], timeout=3600)
        if rc != 0:
            raise ToolError("print harness failed: " + o[-2000:])
        r = json.load(open(out))
        pdig[name] = r["digest"]
        v.cov["evaluations"] += r["renderings"] + r["renderings_outside_c14_digested"]
        for f in r["findings"]:
            f["detail"] = "[features: %s] %s" % (name, f["detail"])
            if fs_ != ["std", "macros", "par_iter", "deser"] and fs_ != ["std", "macros"]:
                f["orig_prop"] = f["prop"]
        v.add_findings(r["findings"], "print:" + name)
    v.cov["parts"].append({"part": "print-digests", "what": "digest of every debug_pretty_print text (4 modes, every start node, 6 line-count assignments, plus payload renderings outside the domain of C14) per feature set; must be identical",
                           "bundles": "GenPrint_s4", "digests": pdig})
    if len(set(pdig.values())) != 1:
        v.add_findings([{"prop": "C17", "kind": "feature-sets-disagree", "detail": "pretty-printed text differs between feature sets: %s" % json.dumps(pdig), "case": {"digests": pdig}}], "print-digests")
    v.cov["parts"].append({"part": "digests-after-clone_from", "what": "the same digest for states reached through clone_from onto a used destination; must be identical", "digests": digests_via})
    if len(set(digests_via.values())) != 1:
        v.add_findings([{"prop": "C17", "kind": "feature-sets-disagree", "detail": "the observation digests of the battery on arenas overwritten by clone_from differ between feature sets: %s" % json.dumps(digests_via), "case": {"digests": digests_via}}], "digests-after-clone_from")
    v.cov["parts"].append({"part": "deep-chain-outcomes", "what": "outcome (exit, findings; the serde phases exist only with deser) of the 300 000-level / 700-wide / 4 000-level-print size probe per feature set; must be identical", "outcomes": deep_phases})
    if len(set(deep_phases.values())) != 1:
        v.add_findings([{"prop": "C17", "kind": "feature-sets-disagree", "detail": "the size probe (chain of 300 000 levels, lists of 700, printing 4 000 levels) ends differently between feature sets: %s" % json.dumps(deep_phases), "case": {"outcomes": deep_phases}}], "deep-chain-outcomes")
    ds = set(digests.values())
    v.cov["parts"].append({"part": "digests", "what": "digest of all results / links / iterator outputs per feature set; must be identical", "digests": digests})
    if len(ds) != 1:
        v.add_findings([{"prop": "C17", "kind": "feature-sets-disagree", "detail": "the observation digests of the exhaustive battery differ between feature sets: %s" % json.dumps(digests), "case": {"digests": digests}}], "digests")
    # a build whose behaviour deviates from the specification while the default build conforms
    default_viol = {(f["prop"], f["kind"]) for f in v.notes if "[features: std+macros+par_iter+deser]" in f["detail"]}
    moved = []
    for f in list(v.notes):
        if f.get("orig_prop") and (f["orig_prop"], f["kind"]) not in default_viol:
            g = dict(f)
            g["prop"] = "C17"
            moved.append(g)
    v.notes = [f for f in v.notes if not (f.get("orig_prop") and (f["orig_prop"], f["kind"]) not in default_viol)]
    v.add_findings(moved, "feature-specific")
    v.level = "exploration"


def check_c18(v, tier):
    hd, tag = harness_dir()
    # (a) type level: Send + Sync for every T: Send + Sync (only the loss of an auto trait can break this build)
    env = {"CARGO_TARGET_DIR": os.path.join(WORK, "target-auto" + tag), "CARGO_NET_OFFLINE": "true"}
    rc, out = sh(["cargo", "run", "--offline", "--quiet"], cwd=os.path.join(hd, "autotraits"), env=env, timeout=1800)
    auto_ok = rc == 0 and "ok" in out
    if not auto_ok:
        if "cannot be sent between threads" in out or "cannot be shared between threads" in out or "Send" in out or "Sync" in out:
            v.add_findings([{"prop": "C18", "kind": "auto-traits", "detail": "Arena<T>/Node<T>/NodeId are not Send + Sync for every T: Send + Sync: " + out[-1200:], "case": {"compiler_output": out[-4000:]}}], "autotraits")
        else:
            raise ToolError("autotraits crate does not build:\n" + out[-3000:])
    # (b) source level guards of the model's assumption (not model-based, see DESIGN.md C18)
    rc, out = sh(["cargo", "rustc", "--offline", "--quiet", "-p", "indextree", "--lib", "--", "-F", "unsafe_code"], cwd=REPO,
                 env={"CARGO_TARGET_DIR": os.path.join(WORK, "target-unsafe" + tag)}, timeout=1800)
    unsafe_ok = rc == 0
    if not unsafe_ok:
        if "unsafe" in out:
            v.add_findings([{"prop": "C18", "kind": "unsafe-code", "detail": "the indextree library does not compile under -F unsafe_code: " + out[-800:], "case": {"compiler_output": out[-3000:]}}], "forbid-unsafe")
        else:
            raise ToolError("cargo rustc -F unsafe_code failed for another reason:\n" + out[-3000:])
    import re as _re
    hits = []
    for fn in sorted(glob.glob(os.path.join(REPO, "indextree", "src", "*.rs"))):
        for i, line in enumerate(open(fn), 1):
            code = line.split("//")[0]
            if _re.search(r"\b(Cell|RefCell|UnsafeCell|OnceCell|OnceLock|LazyLock|LazyCell|Atomic\w+|Mutex|RwLock|Condvar|static\s+mut|thread_local)\b", code):
                hits.append("%s:%d: %s" % (os.path.relpath(fn, REPO), i, line.strip()))
            # state outside the arena that a reader could depend on or synchronise on: the standard streams (process-wide locks),
            # the state of the calling thread, the environment, clocks
            elif _re.search(r"\b(io::(stderr|stdout|stdin)|thread::(panicking|current|park|sleep|yield_now|spawn)|std::(env|time|process)::|Instant::|SystemTime::)", code):
                hits.append("%s:%d: %s" % (os.path.relpath(fn, REPO), i, line.strip()))
    if hits:
        v.add_findings([{"prop": "C18", "kind": "interior-mutability", "detail": "interior mutability / shared mutable state / dependence on process or thread state in the library source: " + "; ".join(hits[:5]), "case": {"hits": hits}}], "source-scan")
    # (c) model: Readers.tla - N concurrent readers over one shared forest, all interleavings
    mc = None
    if os.path.exists(os.path.join(SPEC, "mechanisms", "Readers.cfg")):
        mc = run_mc("mechanisms/Readers" if tier == "quick" else "mechanisms/Readers3")
        add_mc(v, mc, "TLC explores every interleaving of concurrent reader cursor machines over one shared forest: each reader's output equals the sequential one; no action writes the forest")
    # (d) binding: real threads on real arenas
    cfg = "Gen_s4g1"
    path, meta = ensure_bundles(cfg)
    if not auto_ok:
        # the reader battery shares &Arena between threads and cannot even be compiled then
        v.cov["explanation"] = "Arena<T> / Node<T> / NodeId are not Send + Sync for every T: Send + Sync (the assertion crate does not compile): reported as the violation; the thread battery was not run."
        v.cov["evaluations"] += 1
        v.cov["distinct_nontrivial"] += 2
        return
    b = build_harness("release", threads=True)
    out = os.path.join(vlib.RUN, "threads.json")
    every = 5 if tier == "quick" else 1
    try:
        rc, o = sh(["bash", "-c", "pigz -dc %s | %s threads --threads 16 --every %d --random %d --seed %d --out %s; exit ${PIPESTATUS[1]}" % (path, b, every, 30 if tier == "quick" else 200, SEED, out)], timeout=600 if tier == "quick" else 3600)
    except subprocess.TimeoutExpired:
        sh(["pkill", "-f", out])
        v.add_findings([{"prop": "C02", "kind": "hang", "detail": "the reader battery did not finish (a call does not return while the arenas are built)", "case": {}}], "threads")
        v.cov["explanation"] = "The thread battery did not finish: a call does not return (reported for C02); C18 could not be exercised on this tree."
        v.cov["evaluations"] += 1
        v.cov["distinct_nontrivial"] += 2
        return
    if rc != 0:
        raise ToolError("threads harness failed: " + o[-2000:])
    t = json.load(open(out))
    v.cov["traces_validated_against_impl"] += t["thread_logs"]
    v.cov["evaluations"] += t["thread_logs"]
    v.cov["distinct_nontrivial"] += t["arenas"]
    v.cov["explanation"] = ("Type-level part decided by the compiler on a crate that only asserts Send+Sync for every T: Send+Sync (%s); "
                            "'no unsafe code' by compiling the library under -F unsafe_code (%s) and 'no interior mutability' by a source scan (%d hits) - these two are "
                            "facts about the source text that a TLA+ model can only assume, they are guards of the assumption, not model-based. "
                            "Readers.tla makes the assumption explicit (no action writes the forest) and TLC explores all interleavings of concurrent reader cursor machines%s. "
                            "Binding: %d real arenas (every %dth reachable model state <=4 slots and %d random arenas up to %d nodes) each read by %d threads at once "
                            "(std::thread::scope on one &Arena, and rayon par_iter): %d per-thread observation logs, each equal to the single-threaded log. "
                            "Absence of data races under ALL schedules follows from the type system given the two source-level facts, not from these executions.") % (
        "ok" if auto_ok else "FAILED", "ok" if unsafe_ok else "FAILED", len(hits),
        (" (%d states, %d transitions)" % (mc["states"], mc["transitions"])) if mc else "", t["arenas"], every, t["arenas"] - t["bundles"], t["max_nodes"], t["threads"], t["thread_logs"])
    v.cov["parts"].append({"part": "threads", **{k: t[k] for k in ("bundles", "arenas", "threads", "thread_logs", "max_nodes", "par_iter", "observations_per_log_total")}})
    v.cov["samples"].append({"arena": "every %dth bundle of %s + random histories" % (every, cfg), "threads": t["threads"]})
    v.add_findings([f for f in t["findings"] if f["prop"] == "C18"], "threads")


def main(argv):
    import argparse
    ap = argparse.ArgumentParser()
    ap.add_argument("prop")
    ap.add_argument("--tier", default=os.environ.get("VERIF_TIER", "quick"))
    ap.add_argument("--replay", default=None)
    a = ap.parse_args(argv)
    os.makedirs(WORK, exist_ok=True)
    try:
        if a.prop == "setup":
            return setup()
        if a.prop == "selftest":
            vlib.RUN = os.path.join(WORK, "run-selftest-%d" % os.getpid())
            os.makedirs(vlib.RUN, exist_ok=True)
            rc = selftest()
            shutil.rmtree(vlib.RUN, ignore_errors=True)
            return rc
        vlib.RUN = os.path.join(WORK, "run-%s-%s-%d" % (a.prop, a.tier, os.getpid()))
        os.makedirs(vlib.RUN, exist_ok=True)
        if a.replay:
            return replay_file(a.prop, a.replay)
        rc = check_property(a.prop, a.tier)
        if rc == 0:
            shutil.rmtree(vlib.RUN, ignore_errors=True)
        return rc
    except ToolError as e:
        print("TOOL-ERROR:", e, file=sys.stderr)
        return 2
    except subprocess.TimeoutExpired as e:
        print("TOOL-ERROR: timeout", e, file=sys.stderr)
        return 2


def setup():
    """MANIFEST.setup_cmd: build the harness, parse all modules, pre-compute what depends on the spec only."""
    for m in sorted(glob.glob(os.path.join(SPEC, "*.tla"))):
        rc, out = sh(["tla-sany", os.path.basename(m)], cwd=SPEC)
        if rc != 0 or "rror" in out.replace("Semantic errors", "rror"):
            if "*** Errors" in out or rc != 0:
                raise ToolError("SANY: " + m + "\n" + out[-2000:])
    build_harness("debug")
    build_harness("release")
    ensure_bundles("DETable")
    ensure_bundles("Gen_s4g1")
    ensure_bundles("GenShapes_k7")
    ensure_bundles("GenRecycled_k6")
    ensure_bundles("GenShapesMulti_k6")
    ensure_bundles("GenPrint_s4")
    ensure_bundles("GenPrintShapes_k6")
    ensure_bundles("GenPrintDeep")
    ensure_bundles("TreeMacro7")
    for m in MC_QUICK:
        run_mc(m)
    print("setup ok")
    return 0


def selftest():
    """Demonstrates that the binding bites (not part of any verdict): corrupted recordings must be
    rejected by TLC, corrupted expectations must be reported by the replay harness."""
    import gzip, copy
    b = build_harness("debug")
    ok = True
    # (a) impl -> spec: one recorded history, then four corruptions of it
    base = run_traces(b, [{"mix": "mixed", "seed": 4242, "events": 300, "segment": 300, "max_slots": 8}], "selftest-base")
    assert base["traces"][0]["accepted"], "the unmodified trace must be accepted"
    src = base["traces"][0]["file"]
    events = [json.loads(l) for l in open(src)]

    def variant(name, mutate):
        ev = copy.deepcopy(events)
        mutate(ev)
        d = os.path.join(vlib.RUN, "traces-selftest-" + name)
        os.makedirs(d, exist_ok=True)
        f = os.path.join(d, "t.ndjson")
        open(f, "w").write("\n".join(json.dumps(e) for e in ev) + "\n")
        meta = os.path.join(d, "meta")
        rc, out = sh(tlc_cmd("Trace.tla", os.path.join(SPEC, "Trace.cfg"), 1, meta), cwd=SPEC, env={"TRACE": f, "JAVA_TOOL_OPTIONS": "-Xmx2g -Xss512m"}, timeout=600)
        rejected = "TRACE-MISMATCH" in out or "TRACE-SOFT" in out
        print("selftest trace/%-28s %s" % (name, "rejected (good)" if rejected else "ACCEPTED (BAD)"))
        return rejected

    def first(pred):
        return next(i for i, e in enumerate(events) if pred(e))
    i_move = first(lambda e: e["op"] in ("append", "prepend", "insert_after", "insert_before") and e.get("res") == "Ok" and e["count"] >= 3)
    i_fail = first(lambda e: e.get("res") in ("Self", "Removed", "Ancestor"))
    i_new = first(lambda e: e["op"] == "new" and e["count"] >= 2)
    i_rm = first(lambda e: e["op"] == "remove")

    def corrupt_link(ev):
        l = ev[i_move]["links"]
        x = ev[i_move]["live"][0] - 1          # a live slot
        l[x][2] = 0 if l[x][2] else (2 if x != 1 else 1)
    ok &= variant("one link changed", corrupt_link)
    ok &= variant("failing result -> Ok", lambda ev: ev[i_fail].__setitem__("res", "Ok"))
    ok &= variant("new id token reused", lambda ev: ev[i_new].__setitem__("newtok", 1))
    ok &= variant("freed slot not reusable", lambda ev: ev[i_rm].__setitem__("drain", []))
    ok &= variant("payload of a node changed", lambda ev: ev[i_move]["val"].__setitem__(0, 9999) if ev[i_move]["val"][0] else ev[i_move]["val"].__setitem__(1, 9999))

    def swap(ev):
        ev[i_move], ev[i_move + 1] = ev[i_move + 1], ev[i_move]
    if events[i_move + 1]["op"] != events[i_move]["op"] or events[i_move + 1]["links"] != events[i_move]["links"]:
        ok &= variant("two events swapped", swap)
    # (b) spec -> impl: corrupt the expectation inside a bundle
    path, meta = ensure_bundles("Gen_s4g1")
    with gzip.open(path, "rt") as f:
        for line in f:
            bd = json.loads(line)
            if bd["st"]["count"] == 3 and len(bd["st"]["live"]) == 3 and any(x != [0, 0, 0, 0, 0] for x in bd["st"]["links"]):
                break
    for name, mut in [("post-state link", lambda o: o["post"]["links"][0].__setitem__(0, 3 if o["post"]["links"][0][0] != 3 else 2)),
                      ("allowed result classes", lambda o: o.__setitem__("res", ["Ancestor"] if o["res"] == ["Ok"] else ["Ok"])),
                      ("reusable slots", lambda o: o["post"].__setitem__("avail", o["post"]["avail"] + [1]))]:
        bd2 = copy.deepcopy(bd)
        o = next(x for x in bd2["out"] if x["c"]["op"] == "append" and x["res"] == ["Ok"])
        mut(o)
        one = os.path.join(vlib.RUN, "one-%s.ndjson.gz" % name.replace(" ", "_"))
        with gzip.open(one, "wt") as f:
            f.write(json.dumps(bd2) + "\n")
        r = run_replay(b, one, ["--no-observers", "--no-lookups"], "selftest-" + name.replace(" ", "_"))
        bad = sum(r["violations"].values()) > 0
        print("selftest bundle/%-27s %s" % (name, "reported (good)" if bad else "NOT REPORTED (BAD)"))
        ok &= bad
    bd2 = copy.deepcopy(bd)
    live0 = bd2["st"]["live"][0]
    bd2["obs"][live0 - 1]["desc"] = list(reversed(bd2["obs"][live0 - 1]["desc"])) + [live0]
    one = os.path.join(vlib.RUN, "one-obs.ndjson.gz")
    with gzip.open(one, "wt") as f:
        f.write(json.dumps(bd2) + "\n")
    r = run_replay(b, one, ["--no-outcomes"], "selftest-obs")
    bad = r["violations"].get("C09", 0) > 0
    print("selftest bundle/%-27s %s" % ("expected descendants", "reported (good)" if bad else "NOT REPORTED (BAD)"))
    ok &= bad
    print("selftest", "ok" if ok else "FAILED")
    return 0 if ok else 2


def replay_file(prop, path):
    """Re-executes the case of a VIOLATION line against the current sources. Exit 1 if it still fails."""
    r = json.load(open(path))
    f = r["finding"]
    case = f.get("case") or {}
    v = Verdict(prop, r.get("tier", "quick"), LEVEL.get(prop, "other"))
    v.known = []
    if "trace" in case and "spec" in case:
        # a recorded history: record it again with the same driver parameters and validate it
        spec = dict(case["spec"])
        b = build_harness("debug")
        res = run_traces(b, [spec], "replay")
        v.add_findings(res["findings"], "replay")
    elif "replay_cmd" in f and case.get("path") is not None:
        rc_ = f["replay_cmd"]
        def norm(path_):
            return json.dumps([[c.get("op"), c.get("a", 0), c.get("b", 0), c.get("v", 0), bool(c.get("checked", False))] for c in path_])
        want = norm(case["path"])
        one = os.path.join(vlib.RUN, "one.ndjson.gz")
        import gzip
        found = False
        with gzip.open(rc_["bundles"], "rt") as fin, gzip.open(one, "wt") as fout:
            for line in fin:
                if line.startswith("{") and norm(json.loads(line)["path"]) == want:
                    fout.write(line)
                    found = True
                    break
        if not found:
            raise ToolError("the bundle of this case is not in " + rc_["bundles"])
        b = build_harness(rc_.get("profile", "debug"))
        res = run_replay(b, one, rc_["flags"], "replay-one")
        v.add_findings(res["findings"], "replay")
        if rc_.get("monitor"):
            mon = run_monitor(res["states_file"], "replay-one")
            add_monitor(v, mon, res["states_file"], "replay-one", "Monitor.tla on the states of the replayed bundle")
    else:
        print(json.dumps(f, indent=1)[:6000])
        print("this kind of finding has no automatic replay; the case is printed above")
        return 1
    still = [x for x in v.violations if x["kind"] == f["kind"]] or v.violations
    for x in still[:3]:
        print("VIOLATION property=%s replay=%s" % (prop, path))
        print("  %s: %s" % (x["kind"], x["detail"][:400]))
    if not still:
        print("the case no longer fails")
    return 1 if still else 0
