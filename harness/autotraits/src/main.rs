// C18, type-level part: this program compiles iff Arena<T>, Node<T>, NodeId (and the read-only
// iterator types over a shared arena) are Send and Sync for EVERY T that is Send + Sync.
// Nothing else of the API is used, so only the loss of an auto trait can break the build.
use indextree::{Arena, Node, NodeEdge, NodeId};

fn send_sync<X: Send + Sync>() {}

fn for_every_t<T: Send + Sync>() {
    send_sync::<Arena<T>>();
    send_sync::<Node<T>>();
    send_sync::<&Arena<T>>();
    send_sync::<&Node<T>>();
}

fn main() {
    send_sync::<NodeId>();
    send_sync::<NodeEdge>();
    for_every_t::<u8>();
    for_every_t::<String>();
    for_every_t::<std::sync::Arc<Vec<String>>>();
    println!("ok");
}
