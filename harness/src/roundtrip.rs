//! C16: serde round trip at every state, and one-step bisimulation of original and copy.

use crate::replay::*;
use crate::sim::*;
use indextree::Arena;
use serde_json::json;

fn rt(a: &Arena<u32>) -> Result<Arena<u32>, String> {
    let s = serde_json::to_string(a).map_err(|e| e.to_string())?;
    let c: Arena<u32> = serde_json::from_str(&s).map_err(|e| e.to_string())?;
    // and through a format that is not self-describing (sequences with a length prefix, tuples and structs without, enums by index)
    let bytes = crate::wire::to_bytes(a).map_err(|e| format!("binary format: {}", e))?;
    let w: Arena<u32> = crate::wire::from_bytes(&bytes).map_err(|e| format!("binary format: deserialize fails: {}", e))?;
    if w != *a {
        return Err("binary format: deserialize(serialize(arena)) != arena".into());
    }
    Ok(c)
}

pub fn check_state<P: Payload + Clone + 'static>(st: &mut Stats, keep: usize, b: &Bundle, prefix: &Option<Vec<Call>>, sim: &Sim<P>) {
    let sim: &Sim<u32> = match (sim as &dyn std::any::Any).downcast_ref::<Sim<u32>>() {
        Some(s) => s,
        None => return,
    };
    st.check("C16", 1);
    let mk = |e: serde_json::Value, g: serde_json::Value| json!({"prefix_then_clear": prefix, "path": b.path, "call": null, "expected": e, "observed": g});
    match rt(&sim.arena) {
        Err(e) => st.violation(keep, Finding { prop: "C16".into(), kind: "serde-error".into(), detail: e, case: mk(json!(null), json!(null)) }),
        Ok(copy) => {
            if copy != sim.arena {
                st.violation(keep, Finding { prop: "C16".into(), kind: "not-equal".into(), detail: "deserialize(serialize(arena)) != arena".into(), case: mk(json!(sim.proj()), json!(null)) });
            }
            let c = Sim { arena: copy, ids: sim.ids.clone(), toks: sim.toks.clone(), issued: sim.issued.clone() };
            if c.proj() != sim.proj() || c.removed_flags() != sim.removed_flags() || c.drain() != sim.drain() {
                st.violation(keep, Finding { prop: "C16".into(), kind: "observably-different".into(), detail: "links / payloads / is_removed / reusable slots differ between original and round-tripped copy".into(), case: mk(json!(sim.proj()), json!(c.proj())) });
            }
        }
    }
}

#[allow(clippy::too_many_arguments)]
pub fn check_call<P: Payload + Clone + 'static>(st: &mut Stats, keep: usize, b: &Bundle, prefix: &Option<Vec<Call>>, c: &Call, sim: &Sim<P>, after: &Sim<P>, done: &Done) {
    let sim: &Sim<u32> = match (sim as &dyn std::any::Any).downcast_ref::<Sim<u32>>() {
        Some(s) => s,
        None => return,
    };
    let after: &Sim<u32> = (after as &dyn std::any::Any).downcast_ref::<Sim<u32>>().unwrap();
    st.check("C16", 1);
    let copy = match rt(&sim.arena) {
        Ok(c) => c,
        Err(_) => return, // reported by check_state
    };
    let mut cs = Sim { arena: copy, ids: sim.ids.clone(), toks: sim.toks.clone(), issued: sim.issued.clone() };
    let d2 = cs.apply(c);
    let same = d2.class == done.class && d2.new == done.new && cs.arena == after.arena && cs.ids == after.ids && cs.proj() == after.proj() && cs.removed_flags() == after.removed_flags();
    if !same {
        st.violation(keep, Finding { prop: "C16".into(), kind: "diverges-after-call".into(), detail: format!("{}(a={}, b={}) gives {} on the original and {} on the round-tripped copy, or different arenas", c.op, c.a, c.b, done.class, d2.class), case: json!({"prefix_then_clear": prefix, "path": b.path, "call": c, "expected": after.proj(), "observed": cs.proj()}) });
    }
}
