//! C14: debug_pretty_print against the renderings computed by TLC from Printer.tla.
//! The token -> text mapping below is the only knowledge here: BAR "|   ", BLANK "    ",
//! TEE "|-- ", ELL "`-- ", ROOT "".

use crate::sim::*;
use serde::Deserialize;
use serde_json::json;
use std::fmt;
use std::io::BufRead;

#[derive(Clone, PartialEq)]
pub struct Doc {
    tok: u32,
    lines: usize,
}
impl Payload for Doc {
    fn make(tok: u32) -> Self {
        Doc { tok, lines: 1 }
    }
    fn tok(&self) -> u32 {
        self.tok
    }
}
fn text(letter: char, tok: u32, lines: usize, k: usize) -> String {
    if tok % 7 == 6 || tok == 2 {
        // a payload that is itself a small tree (a chain of `lines` nodes) drawn by debug_pretty_print of ANOTHER arena:
        // printing re-enters the printer while the outer printer is in the middle of a node
        return match k {
            1 => format!("{}{}n", letter, tok),
            2 => format!("`-- {}{}n.2", letter, tok),
            _ => format!("    `-- {}{}n.3", letter, tok),
        };
    }
    // a 3-line payload has an empty interior line
    if lines == 3 && k == 2 {
        String::new()
    } else {
        // some payloads contain multi-byte characters (before and after the line breaks)
        let mut s = match tok % 3 {
            0 => format!("{}{}.{}", letter, tok, k),
            1 => format!("{}é{}.{}木", letter, tok, k),
            _ => format!("木{}{}.{}", letter, tok, k),
        };
        // some payloads use CR LF line ends or contain a CR / a tab / trailing blanks inside a line: only '\n' ends a line
        match tok % 5 {
            4 if k < lines => s.push('\r'),
            3 => s.push_str("\r\t. "),
            _ => {}
        }
        s
    }
}
/// renderings outside the domain of C14 (used only for the cross-build digest of C17, never compared with the
/// specification): 1 = ends in a newline, 2 = empty for every second payload, 3 = ends in a blank line
static ODD: std::sync::atomic::AtomicUsize = std::sync::atomic::AtomicUsize::new(0);
impl Doc {
    fn render(&self, letter: char) -> String {
        let t = (1..=self.lines).map(|k| text(letter, self.tok, self.lines, k)).collect::<Vec<_>>().join("\n");
        match ODD.load(std::sync::atomic::Ordering::Relaxed) {
            1 => t + "\n",
            2 if self.tok % 2 == 0 => String::new(),
            3 => t + "\n\n",
            _ => t,
        }
    }
}
/// a sink that refuses more than 4 MiB: a printer that never stops producing output becomes an error, not an OOM
struct Bounded {
    buf: String,
}
impl fmt::Write for Bounded {
    fn write_str(&mut self, s: &str) -> fmt::Result {
        if self.buf.len() + s.len() > (4 << 20) {
            return Err(fmt::Error);
        }
        self.buf.push_str(s);
        Ok(())
    }
}
/// Ok(text) | Err("endless") when the sink overflowed (or the formatter reported an error)
fn render_bounded<T: fmt::Display + fmt::Debug>(arena: &indextree::Arena<T>, id: indextree::NodeId, mode: &str) -> Result<String, String> {
    use fmt::Write;
    let p = id.debug_pretty_print(arena);
    let mut w = Bounded { buf: String::new() };
    let r = match mode {
        "{}" => write!(w, "{}", p),
        "{:#}" => write!(w, "{:#}", p),
        "{:?}" => write!(w, "{:?}", p),
        _ => write!(w, "{:#?}", p),
    };
    HEARTBEAT.fetch_add(1, std::sync::atomic::Ordering::Relaxed);
    match r {
        Ok(()) => Ok(w.buf),
        Err(_) => Err(format!("printing did not stop (more than {} bytes of output)", w.buf.len())),
    }
}
static HEARTBEAT: std::sync::atomic::AtomicU64 = std::sync::atomic::AtomicU64::new(0);
static CURRENT: std::sync::Mutex<String> = std::sync::Mutex::new(String::new());
fn fnv(h: &mut u64, bytes: &[u8]) {
    for b in bytes {
        *h ^= *b as u64;
        *h = h.wrapping_mul(0x100000001b3);
    }
}
impl Doc {
    /// the rendering reaches the formatter in different fragmentations: as one string, in three pieces that cut across
    /// line boundaries, line by line with separate newlines, or character by character
    fn emit(&self, f: &mut fmt::Formatter<'_>, letter: char) -> fmt::Result {
        if (self.tok % 7 == 6 || self.tok == 2) && ODD.load(std::sync::atomic::Ordering::Relaxed) == 0 {
            let mut inner: indextree::Arena<String> = indextree::Arena::new();
            let root = inner.new_node(format!("{}{}n", letter, self.tok));
            let mut last = root;
            for k in 2..=self.lines {
                last = last.append_value(format!("{}{}n.{}", letter, self.tok, k), &mut inner);
            }
            return write!(f, "{}", root.debug_pretty_print(&inner));
        }
        let txt = self.render(letter);
        match self.tok % 4 {
            0 => f.write_str(&txt),
            1 => {
                // three pieces that do not respect line boundaries: the first character, everything up to the last
                // character (starts in the middle of a line, contains every newline, does not end with one), the last character
                let idx: Vec<usize> = txt.char_indices().map(|(i, _)| i).collect();
                if idx.len() < 3 {
                    return f.write_str(&txt);
                }
                let (a, z) = (idx[1], idx[idx.len() - 1]);
                f.write_str(&txt[..a])?;
                f.write_str(&txt[a..z])?;
                f.write_str(&txt[z..])
            }
            2 => {
                for (i, l) in txt.split('\n').enumerate() {
                    if i > 0 {
                        f.write_str("\n")?;
                    }
                    f.write_str(l)?;
                }
                Ok(())
            }
            _ => {
                for ch in txt.chars() {
                    fmt::Write::write_char(f, ch)?;
                }
                Ok(())
            }
        }
    }
}
impl fmt::Display for Doc {
    fn fmt(&self, f: &mut fmt::Formatter<'_>) -> fmt::Result {
        self.emit(f, if f.alternate() { 'D' } else { 'd' })
    }
}
// hand-written Debug: the four format modes must be distinguishable
impl fmt::Debug for Doc {
    fn fmt(&self, f: &mut fmt::Formatter<'_>) -> fmt::Result {
        self.emit(f, if f.alternate() { 'G' } else { 'g' })
    }
}

#[derive(Deserialize)]
struct Line {
    g: Vec<String>,
    lead: String,
    node: usize,
    k: usize,
}
#[derive(Deserialize)]
struct Variant {
    nl: Vec<usize>,
    r: Vec<Vec<Line>>,
}
#[derive(Deserialize)]
struct PBundle {
    path: Vec<Call>,
    st: crate::replay::SpecProj,
    print: Vec<Variant>,
}

fn tok_str(t: &str) -> &'static str {
    match t {
        "BAR" => "|   ",
        "BLANK" => "    ",
        "TEE" => "|-- ",
        "ELL" => "`-- ",
        "ROOT" => "",
        _ => "?TOKEN?",
    }
}

pub fn run(args: &[String]) -> i32 {
    let get = |n: &str, d: &str| args.iter().position(|a| a == n).and_then(|i| args.get(i + 1)).cloned().unwrap_or_else(|| d.to_string());
    let out = get("--out", "print.json");
    let stdin = std::io::stdin();
    let mut bundles = 0u64;
    let mut renderings = 0u64;
    let mut lines_cmp = 0u64;
    let mut multi = 0u64;
    let mut abandoned = 0u64;
    let mut findings: Vec<serde_json::Value> = Vec::new();
    let mut nviol = 0u64;
    let mut samples: Vec<serde_json::Value> = Vec::new();
    let odd = args.iter().any(|a| a == "--digest-odd");
    // a rendering that neither returns nor produces output: after 60 s without progress the case is reported and the run ends
    {
        let out = out.clone();
        std::thread::spawn(move || {
            let mut last = HEARTBEAT.load(std::sync::atomic::Ordering::Relaxed);
            let mut idle = 0u32;
            loop {
                std::thread::sleep(std::time::Duration::from_secs(5));
                let now = HEARTBEAT.load(std::sync::atomic::Ordering::Relaxed);
                let cur = CURRENT.lock().map(|c| c.clone()).unwrap_or_default();
                if now != last || cur.is_empty() {
                    last = now;
                    idle = 0;
                    continue;
                }
                idle += 1;
                if idle >= 12 {
                    let case: serde_json::Value = serde_json::from_str(&cur).unwrap_or(json!({}));
                    let d = format!("debug_pretty_print does not return within 60 s and produces no output ({})", cur);
                    let res = json!({"bundles": 0, "abandoned_policy": 0, "renderings": now, "multi_line_renderings": 0, "lines_compared": 0, "violations": 1,
                        "findings": [{"prop": "C02", "kind": "hang", "detail": d, "case": case}, {"prop": "C14", "kind": "rendering", "detail": d, "case": case}],
                        "samples": [], "debug_assertions": cfg!(debug_assertions), "digest": "hang", "renderings_outside_c14_digested": 0});
                    std::fs::write(&out, serde_json::to_string_pretty(&res).unwrap()).unwrap();
                    std::process::exit(0);
                }
            }
        });
    }
    let mut digest: u64 = 0xcbf29ce484222325;
    let mut odd_renderings = 0u64;
    let mut endless_seen = 0u32;
    for line in stdin.lock().lines() {
        let line = line.unwrap();
        if !line.starts_with('{') {
            continue;
        }
        if endless_seen >= 3 {
            continue; // renderings that never stop have been reported; the rest of the battery is skipped
        }
        let b: PBundle = match serde_json::from_str(&line) {
            Ok(b) => b,
            Err(e) => {
                eprintln!("harness: bad print bundle: {}", e);
                return 2;
            }
        };
        bundles += 1;
        let mut sim: Sim<Doc> = Sim::new();
        let mut ok = true;
        for c in &b.path {
            let d = sim.apply(c);
            let want = if c.op == "new" { c.a } else if c.op == "append_value" { c.b } else { 0 };
            if d.class != "Ok" || (want != 0 && d.new != want) {
                ok = false;
                break;
            }
        }
        if !ok {
            abandoned += 1;
            continue;
        }
        for (vi, v) in b.print.iter().enumerate() {
            for s in &b.st.live {
                let id = sim.id(*s);
                sim.arena[id].get_mut().lines = v.nl[*s - 1];
            }
            for start in &b.st.live {
                let id = sim.id(*start);
                let exp = &v.r[*start - 1];
                for (mode, letter) in [("{}", 'd'), ("{:#}", 'D'), ("{:?}", 'g'), ("{:#?}", 'G')] {
                    renderings += 1;
                    let a = &sim.arena;
                    if let Ok(mut c) = CURRENT.lock() {
                        *c = serde_json::to_string(&json!({"path": b.path, "start": start, "mode": mode, "lines_per_slot": v.nl})).unwrap();
                    }
                    let got0 = std::panic::catch_unwind(std::panic::AssertUnwindSafe(|| render_bounded(a, id, mode)));
                    let mut endless: Option<String> = None;
                    let got: Result<String, ()> = match got0 {
                        Ok(Ok(t)) => Ok(t),
                        Ok(Err(e)) => {
                            endless = Some(e);
                            Err(())
                        }
                        Err(_) => Err(()),
                    };
                    match &got {
                        Ok(t) => fnv(&mut digest, t.as_bytes()),
                        Err(_) => fnv(&mut digest, b"<panic>"),
                    }
                    if odd && vi == 0 {
                        for m in 1..=3 {
                            ODD.store(m, std::sync::atomic::Ordering::Relaxed);
                            let g: Result<String, ()> = match std::panic::catch_unwind(std::panic::AssertUnwindSafe(|| render_bounded(a, id, mode))) {
                                Ok(Ok(t)) => Ok(t),
                                _ => Err(()),
                            };
                            ODD.store(0, std::sync::atomic::Ordering::Relaxed);
                            odd_renderings += 1;
                            match &g {
                                Ok(t) => fnv(&mut digest, t.as_bytes()),
                                Err(_) => fnv(&mut digest, b"<panic>"),
                            }
                        }
                    }
                    let want_lines: Vec<(String, bool)> = exp
                        .iter()
                        .map(|ln| {
                            let pl = a[sim.id(ln.node)].get();
                            let t = text(letter, pl.tok, pl.lines, ln.k);
                            let mut s: String = ln.g.iter().map(|g| tok_str(g)).collect();
                            s.push_str(tok_str(&ln.lead));
                            s.push_str(&t);
                            (s, t.is_empty())
                        })
                        .collect();
                    if want_lines.len() > exp.iter().filter(|l| l.k == 1).count() {
                        multi += 1;
                    }
                    let mut bad: Option<String> = None;
                    match &got {
                        Err(_) => bad = Some(endless.clone().unwrap_or_else(|| "printing panicked".into())),
                        Ok(txt) => {
                            let gl: Vec<&str> = txt.split('\n').collect();
                            if gl.len() != want_lines.len() {
                                bad = Some(format!("{} lines printed, {} expected", gl.len(), want_lines.len()));
                            } else {
                                for (i, (w, empty_payload_line)) in want_lines.iter().enumerate() {
                                    lines_cmp += 1;
                                    // padding after the last guide on a line whose payload text is empty is not fixed by the property
                                    let same = if *empty_payload_line { gl[i].trim_end() == w.trim_end() } else { gl[i] == w };
                                    if !same {
                                        bad = Some(format!("line {} is {:?} expected {:?}", i + 1, gl[i], w));
                                        break;
                                    }
                                }
                            }
                        }
                    }
                    if samples.len() < 2 && bundles % 211 == 5 && want_lines.len() >= 5 && vi == 0 {
                        samples.push(json!({"path": b.path, "start": start, "mode": mode, "lines_per_slot": v.nl, "printed": got.as_ref().ok()}));
                    }
                    if endless.is_some() {
                        endless_seen += 1;
                    }
                    if let Some(e) = &endless {
                        if !findings.iter().any(|f| f["prop"] == "C02") {
                            findings.push(json!({"prop": "C02", "kind": "hang", "detail": format!("debug_pretty_print from slot {} in mode {} with lines-per-slot {:?} does not return: {}", start, mode, v.nl, e),
                                "case": {"path": b.path, "start": start, "mode": mode, "lines_per_slot": v.nl}}));
                        }
                    }
                    if let Some(d) = bad {
                        nviol += 1;
                        if findings.iter().filter(|f| f["prop"] == "C14").count() < 5 {
                            let w: Vec<&String> = want_lines.iter().map(|x| &x.0).collect();
                            findings.push(json!({"prop": "C14", "kind": "rendering", "detail": format!("debug_pretty_print from slot {} in mode {} with lines-per-slot {:?}: {}", start, mode, v.nl, d),
                                "case": {"path": b.path, "start": start, "mode": mode, "lines_per_slot": v.nl, "expected": w, "observed": got.ok()}}));
                        }
                    }
                }
            }
        }
    }
    let res = json!({"bundles": bundles, "abandoned_policy": abandoned, "renderings": renderings, "multi_line_renderings": multi, "lines_compared": lines_cmp,
        "violations": nviol, "findings": findings, "samples": samples, "debug_assertions": cfg!(debug_assertions),
        "digest": format!("{:016x}", digest), "renderings_outside_c14_digested": odd_renderings});
    std::fs::write(out, serde_json::to_string_pretty(&res).unwrap()).unwrap();
    0
}
