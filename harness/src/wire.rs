//! A small binary serde data format in the style of bincode/postcard: not self-describing (deserialize_any is an error),
//! integers little-endian fixed width, sequences and maps with a u64 length prefix, tuples and structs without,
//! enum variants by their u32 index. Used next to serde_json for the C16 round trips: derived serde impls work with
//! any format, hand-written ones may only work with self-describing ones.
#![allow(dead_code, clippy::all)]
use serde::{
    de::{self, DeserializeSeed, IntoDeserializer, Visitor},
    ser, Deserialize, Serialize,
};
use std::fmt;

#[derive(Debug)]
pub struct Error(pub String);

impl fmt::Display for Error {
    fn fmt(&self, f: &mut fmt::Formatter<'_>) -> fmt::Result {
        f.write_str(&self.0)
    }
}
impl std::error::Error for Error {}
impl ser::Error for Error {
    fn custom<T: fmt::Display>(msg: T) -> Self {
        Error(msg.to_string())
    }
}
impl de::Error for Error {
    fn custom<T: fmt::Display>(msg: T) -> Self {
        Error(msg.to_string())
    }
}

pub fn to_bytes<T: Serialize>(value: &T) -> Result<Vec<u8>, Error> {
    let mut ser = Ser { out: Vec::new() };
    value.serialize(&mut ser)?;
    Ok(ser.out)
}

pub fn from_bytes<'a, T: Deserialize<'a>>(bytes: &'a [u8]) -> Result<T, Error> {
    let mut de = De { input: bytes };
    let value = T::deserialize(&mut de)?;
    if de.input.is_empty() {
        Ok(value)
    } else {
        Err(Error(format!("{} trailing bytes", de.input.len())))
    }
}

// ---------------------------------------------------------------- ser

pub struct Ser {
    out: Vec<u8>,
}

impl Ser {
    fn len(&mut self, len: Option<usize>) -> Result<(), Error> {
        let len = len.ok_or_else(|| Error("sequence length required".into()))?;
        self.out.extend_from_slice(&(len as u64).to_le_bytes());
        Ok(())
    }
}

macro_rules! ser_num {
    ($($name:ident: $ty:ty),*) => {$(
        fn $name(self, v: $ty) -> Result<(), Error> {
            self.out.extend_from_slice(&v.to_le_bytes());
            Ok(())
        }
    )*};
}

impl<'a> ser::Serializer for &'a mut Ser {
    type Ok = ();
    type Error = Error;
    type SerializeSeq = Self;
    type SerializeTuple = Self;
    type SerializeTupleStruct = Self;
    type SerializeTupleVariant = Self;
    type SerializeMap = Self;
    type SerializeStruct = Self;
    type SerializeStructVariant = Self;

    fn is_human_readable(&self) -> bool {
        false
    }

    ser_num!(serialize_i8: i8, serialize_i16: i16, serialize_i32: i32, serialize_i64: i64,
             serialize_u8: u8, serialize_u16: u16, serialize_u32: u32, serialize_u64: u64,
             serialize_f32: f32, serialize_f64: f64);

    fn serialize_bool(self, v: bool) -> Result<(), Error> {
        self.out.push(v as u8);
        Ok(())
    }
    fn serialize_char(self, v: char) -> Result<(), Error> {
        self.serialize_u32(v as u32)
    }
    fn serialize_str(self, v: &str) -> Result<(), Error> {
        self.serialize_bytes(v.as_bytes())
    }
    fn serialize_bytes(self, v: &[u8]) -> Result<(), Error> {
        self.len(Some(v.len()))?;
        self.out.extend_from_slice(v);
        Ok(())
    }
    fn serialize_none(self) -> Result<(), Error> {
        self.out.push(0);
        Ok(())
    }
    fn serialize_some<T: ?Sized + Serialize>(self, value: &T) -> Result<(), Error> {
        self.out.push(1);
        value.serialize(self)
    }
    fn serialize_unit(self) -> Result<(), Error> {
        Ok(())
    }
    fn serialize_unit_struct(self, _name: &'static str) -> Result<(), Error> {
        Ok(())
    }
    fn serialize_unit_variant(
        self,
        _name: &'static str,
        index: u32,
        _variant: &'static str,
    ) -> Result<(), Error> {
        self.serialize_u32(index)
    }
    fn serialize_newtype_struct<T: ?Sized + Serialize>(
        self,
        _name: &'static str,
        value: &T,
    ) -> Result<(), Error> {
        value.serialize(self)
    }
    fn serialize_newtype_variant<T: ?Sized + Serialize>(
        self,
        _name: &'static str,
        index: u32,
        _variant: &'static str,
        value: &T,
    ) -> Result<(), Error> {
        self.out.extend_from_slice(&index.to_le_bytes());
        value.serialize(self)
    }
    fn serialize_seq(self, len: Option<usize>) -> Result<Self, Error> {
        self.len(len)?;
        Ok(self)
    }
    fn serialize_tuple(self, _len: usize) -> Result<Self, Error> {
        Ok(self)
    }
    fn serialize_tuple_struct(self, _name: &'static str, _len: usize) -> Result<Self, Error> {
        Ok(self)
    }
    fn serialize_tuple_variant(
        self,
        _name: &'static str,
        index: u32,
        _variant: &'static str,
        _len: usize,
    ) -> Result<Self, Error> {
        self.out.extend_from_slice(&index.to_le_bytes());
        Ok(self)
    }
    fn serialize_map(self, len: Option<usize>) -> Result<Self, Error> {
        self.len(len)?;
        Ok(self)
    }
    fn serialize_struct(self, _name: &'static str, _len: usize) -> Result<Self, Error> {
        Ok(self)
    }
    fn serialize_struct_variant(
        self,
        _name: &'static str,
        index: u32,
        _variant: &'static str,
        _len: usize,
    ) -> Result<Self, Error> {
        self.out.extend_from_slice(&index.to_le_bytes());
        Ok(self)
    }
}

macro_rules! ser_compound {
    ($($tr:ident :: $method:ident),*) => {$(
        impl<'a> ser::$tr for &'a mut Ser {
            type Ok = ();
            type Error = Error;
            fn $method<T: ?Sized + Serialize>(&mut self, value: &T) -> Result<(), Error> {
                value.serialize(&mut **self)
            }
            fn end(self) -> Result<(), Error> {
                Ok(())
            }
        }
    )*};
}
ser_compound!(
    SerializeSeq::serialize_element,
    SerializeTuple::serialize_element,
    SerializeTupleStruct::serialize_field,
    SerializeTupleVariant::serialize_field
);

impl<'a> ser::SerializeMap for &'a mut Ser {
    type Ok = ();
    type Error = Error;
    fn serialize_key<T: ?Sized + Serialize>(&mut self, key: &T) -> Result<(), Error> {
        key.serialize(&mut **self)
    }
    fn serialize_value<T: ?Sized + Serialize>(&mut self, value: &T) -> Result<(), Error> {
        value.serialize(&mut **self)
    }
    fn end(self) -> Result<(), Error> {
        Ok(())
    }
}
impl<'a> ser::SerializeStruct for &'a mut Ser {
    type Ok = ();
    type Error = Error;
    fn serialize_field<T: ?Sized + Serialize>(
        &mut self,
        _key: &'static str,
        value: &T,
    ) -> Result<(), Error> {
        value.serialize(&mut **self)
    }
    fn end(self) -> Result<(), Error> {
        Ok(())
    }
}
impl<'a> ser::SerializeStructVariant for &'a mut Ser {
    type Ok = ();
    type Error = Error;
    fn serialize_field<T: ?Sized + Serialize>(
        &mut self,
        _key: &'static str,
        value: &T,
    ) -> Result<(), Error> {
        value.serialize(&mut **self)
    }
    fn end(self) -> Result<(), Error> {
        Ok(())
    }
}

// ----------------------------------------------------------------- de

pub struct De<'de> {
    input: &'de [u8],
}

impl<'de> De<'de> {
    fn take(&mut self, n: usize) -> Result<&'de [u8], Error> {
        if self.input.len() < n {
            return Err(Error(format!(
                "unexpected end of input: need {} bytes, have {}",
                n,
                self.input.len()
            )));
        }
        let (head, tail) = self.input.split_at(n);
        self.input = tail;
        Ok(head)
    }
    fn array<const N: usize>(&mut self) -> Result<[u8; N], Error> {
        let mut buf = [0u8; N];
        buf.copy_from_slice(self.take(N)?);
        Ok(buf)
    }
    fn len(&mut self) -> Result<usize, Error> {
        let len = u64::from_le_bytes(self.array()?);
        // every element occupies at least zero bytes; refuse absurd lengths
        // so that garbage cannot make us allocate or loop for ever
        if len > (1 << 32) {
            return Err(Error(format!("implausible length prefix {}", len)));
        }
        Ok(len as usize)
    }
}

macro_rules! de_num {
    ($($name:ident => $visit:ident: $ty:ty),*) => {$(
        fn $name<V: Visitor<'de>>(self, visitor: V) -> Result<V::Value, Error> {
            visitor.$visit(<$ty>::from_le_bytes(self.array()?))
        }
    )*};
}

impl<'de, 'a> de::Deserializer<'de> for &'a mut De<'de> {
    type Error = Error;

    fn is_human_readable(&self) -> bool {
        false
    }

    fn deserialize_any<V: Visitor<'de>>(self, _visitor: V) -> Result<V::Value, Error> {
        Err(Error("format is not self-describing: deserialize_any".into()))
    }
    fn deserialize_identifier<V: Visitor<'de>>(self, _visitor: V) -> Result<V::Value, Error> {
        Err(Error("format is not self-describing: deserialize_identifier".into()))
    }
    fn deserialize_ignored_any<V: Visitor<'de>>(self, _visitor: V) -> Result<V::Value, Error> {
        Err(Error("format is not self-describing: deserialize_ignored_any".into()))
    }

    de_num!(deserialize_i8 => visit_i8: i8, deserialize_i16 => visit_i16: i16,
            deserialize_i32 => visit_i32: i32, deserialize_i64 => visit_i64: i64,
            deserialize_u8 => visit_u8: u8, deserialize_u16 => visit_u16: u16,
            deserialize_u32 => visit_u32: u32, deserialize_u64 => visit_u64: u64,
            deserialize_f32 => visit_f32: f32, deserialize_f64 => visit_f64: f64);

    fn deserialize_bool<V: Visitor<'de>>(self, visitor: V) -> Result<V::Value, Error> {
        match self.take(1)?[0] {
            0 => visitor.visit_bool(false),
            1 => visitor.visit_bool(true),
            b => Err(Error(format!("invalid bool {}", b))),
        }
    }
    fn deserialize_char<V: Visitor<'de>>(self, visitor: V) -> Result<V::Value, Error> {
        let code = u32::from_le_bytes(self.array()?);
        visitor.visit_char(char::from_u32(code).ok_or_else(|| Error("invalid char".into()))?)
    }
    fn deserialize_str<V: Visitor<'de>>(self, visitor: V) -> Result<V::Value, Error> {
        let len = self.len()?;
        let bytes = self.take(len)?;
        visitor.visit_borrowed_str(
            std::str::from_utf8(bytes).map_err(|e| Error(e.to_string()))?,
        )
    }
    fn deserialize_string<V: Visitor<'de>>(self, visitor: V) -> Result<V::Value, Error> {
        self.deserialize_str(visitor)
    }
    fn deserialize_bytes<V: Visitor<'de>>(self, visitor: V) -> Result<V::Value, Error> {
        let len = self.len()?;
        visitor.visit_borrowed_bytes(self.take(len)?)
    }
    fn deserialize_byte_buf<V: Visitor<'de>>(self, visitor: V) -> Result<V::Value, Error> {
        self.deserialize_bytes(visitor)
    }
    fn deserialize_option<V: Visitor<'de>>(self, visitor: V) -> Result<V::Value, Error> {
        match self.take(1)?[0] {
            0 => visitor.visit_none(),
            1 => visitor.visit_some(self),
            b => Err(Error(format!("invalid option tag {}", b))),
        }
    }
    fn deserialize_unit<V: Visitor<'de>>(self, visitor: V) -> Result<V::Value, Error> {
        visitor.visit_unit()
    }
    fn deserialize_unit_struct<V: Visitor<'de>>(
        self,
        _name: &'static str,
        visitor: V,
    ) -> Result<V::Value, Error> {
        visitor.visit_unit()
    }
    fn deserialize_newtype_struct<V: Visitor<'de>>(
        self,
        _name: &'static str,
        visitor: V,
    ) -> Result<V::Value, Error> {
        visitor.visit_newtype_struct(self)
    }
    fn deserialize_seq<V: Visitor<'de>>(self, visitor: V) -> Result<V::Value, Error> {
        let len = self.len()?;
        visitor.visit_seq(Counted { de: self, left: len })
    }
    fn deserialize_tuple<V: Visitor<'de>>(
        self,
        len: usize,
        visitor: V,
    ) -> Result<V::Value, Error> {
        visitor.visit_seq(Counted { de: self, left: len })
    }
    fn deserialize_tuple_struct<V: Visitor<'de>>(
        self,
        _name: &'static str,
        len: usize,
        visitor: V,
    ) -> Result<V::Value, Error> {
        self.deserialize_tuple(len, visitor)
    }
    fn deserialize_map<V: Visitor<'de>>(self, visitor: V) -> Result<V::Value, Error> {
        let len = self.len()?;
        visitor.visit_map(Counted { de: self, left: len })
    }
    fn deserialize_struct<V: Visitor<'de>>(
        self,
        _name: &'static str,
        fields: &'static [&'static str],
        visitor: V,
    ) -> Result<V::Value, Error> {
        self.deserialize_tuple(fields.len(), visitor)
    }
    fn deserialize_enum<V: Visitor<'de>>(
        self,
        _name: &'static str,
        _variants: &'static [&'static str],
        visitor: V,
    ) -> Result<V::Value, Error> {
        visitor.visit_enum(self)
    }
}

struct Counted<'a, 'de> {
    de: &'a mut De<'de>,
    left: usize,
}

impl<'de, 'a> de::SeqAccess<'de> for Counted<'a, 'de> {
    type Error = Error;
    fn next_element_seed<T: DeserializeSeed<'de>>(
        &mut self,
        seed: T,
    ) -> Result<Option<T::Value>, Error> {
        if self.left == 0 {
            return Ok(None);
        }
        self.left -= 1;
        seed.deserialize(&mut *self.de).map(Some)
    }
    fn size_hint(&self) -> Option<usize> {
        Some(self.left)
    }
}

impl<'de, 'a> de::MapAccess<'de> for Counted<'a, 'de> {
    type Error = Error;
    fn next_key_seed<K: DeserializeSeed<'de>>(
        &mut self,
        seed: K,
    ) -> Result<Option<K::Value>, Error> {
        if self.left == 0 {
            return Ok(None);
        }
        self.left -= 1;
        seed.deserialize(&mut *self.de).map(Some)
    }
    fn next_value_seed<V: DeserializeSeed<'de>>(&mut self, seed: V) -> Result<V::Value, Error> {
        seed.deserialize(&mut *self.de)
    }
}

impl<'de, 'a> de::EnumAccess<'de> for &'a mut De<'de> {
    type Error = Error;
    type Variant = Self;
    fn variant_seed<V: DeserializeSeed<'de>>(
        self,
        seed: V,
    ) -> Result<(V::Value, Self), Error> {
        let index = u32::from_le_bytes(self.array()?);
        let value = seed.deserialize(IntoDeserializer::<Error>::into_deserializer(index))?;
        Ok((value, self))
    }
}

impl<'de, 'a> de::VariantAccess<'de> for &'a mut De<'de> {
    type Error = Error;
    fn unit_variant(self) -> Result<(), Error> {
        Ok(())
    }
    fn newtype_variant_seed<T: DeserializeSeed<'de>>(self, seed: T) -> Result<T::Value, Error> {
        seed.deserialize(self)
    }
    fn tuple_variant<V: Visitor<'de>>(self, len: usize, visitor: V) -> Result<V::Value, Error> {
        de::Deserializer::deserialize_tuple(self, len, visitor)
    }
    fn struct_variant<V: Visitor<'de>>(
        self,
        fields: &'static [&'static str],
        visitor: V,
    ) -> Result<V::Value, Error> {
        de::Deserializer::deserialize_tuple(self, fields.len(), visitor)
    }
}
