//! C08: payload identity and destructors. `Tracked` is not `Clone`, so every case is
//! rebuilt from its call path instead of cloning the arena.

use crate::replay::*;
use crate::sim::*;
use serde_json::json;
use std::collections::HashMap;

fn take_log() -> Vec<u64> {
    DROP_LOG.with(|l| std::mem::take(&mut *l.borrow_mut()))
}

fn build(b: &Bundle) -> Option<Sim<Tracked>> {
    let mut sim: Sim<Tracked> = Sim::new();
    for c in &b.path {
        let d = sim.apply(c);
        let want = if c.op == "new" { c.a } else if c.op == "append_value" { c.b } else { 0 };
        if d.class != "Ok" || (want != 0 && d.new != want) {
            return None;
        }
    }
    Some(sim)
}

fn serials(sim: &Sim<Tracked>) -> HashMap<usize, u64> {
    let mut m = HashMap::new();
    for (i, n) in sim.arena.iter().enumerate() {
        if !n.is_removed() {
            // a live node whose payload cannot be read (overwritten by a free-list link) gets serial 0
            let ser = std::panic::catch_unwind(std::panic::AssertUnwindSafe(|| n.get().serial)).unwrap_or(0);
            m.insert(i + 1, ser);
        }
    }
    m
}

pub fn process(ctx: &Ctx, line: &str, prog: &Progress, st: &mut Stats) {
    let keep = ctx.opts.keep;
    let b: Bundle = match serde_json::from_str(line) {
        Ok(b) => b,
        Err(e) => {
            eprintln!("harness: cannot parse bundle: {}", e);
            std::process::exit(2);
        }
    };
    st.bundles += 1;
    let _ = prog;
    for o in b.out.iter() {
        take_log();
        let mut sim = match build(&b) {
            Some(s) => s,
            None => {
                st.abandoned_policy += 1;
                return;
            }
        };
        let before_drops = take_log(); // drops during the path (overwritten payloads, removed nodes)
        let pre = serials(&sim);
        let c = &o.c;
        let d = sim.apply(c);
        st.cases += 1;
        let refused_unknown = d.class == "ErrUnknown" && o.res.iter().any(|r| r == "Self" || r == "Removed" || r == "Ancestor");
        if !o.res.contains(&d.class) && !refused_unknown {
            continue; // reported by the main replay under C05
        }
        let alloc = c.op == "new" || c.op == "append_value";
        let exp = if alloc && d.class == "Ok" {
            match b.out.iter().find(|x| x.c.op == c.op && x.c.v == c.v && (c.op == "new" || x.c.a == c.a) && x.new == d.new) {
                Some(x) => x,
                None => continue, // C07's business
            }
        } else {
            o
        };
        if alloc && d.class == "Ok" && d.new != o.new {
            // this alternative is handled when its own entry comes up
            if b.out.iter().position(|x| std::ptr::eq(x, exp)).is_some() && !std::ptr::eq(exp, o) {
                continue;
            }
        }
        st.check("C08", 1);
        st.nontrivial_cases += 1;
        let log = take_log();
        let post = serials(&sim);
        let mk = |e: serde_json::Value, g: serde_json::Value| json!({"path": b.path, "call": c, "expected": e, "observed": g});
        // exactly the payloads of the slots named by the specification are destroyed
        let mut want: Vec<u64> = exp.drops.iter().filter_map(|s| pre.get(s).copied()).collect();
        want.sort();
        let mut got: Vec<u64> = log.iter().copied().filter(|s| pre.values().any(|p| p == s)).collect();
        got.sort();
        if got != want {
            let slot_of = |ser: &u64| pre.iter().find(|(_, v)| *v == ser).map(|(k, _)| *k).unwrap_or(0);
            let gs: Vec<usize> = got.iter().map(slot_of).collect();
            st.violation(keep, Finding { prop: "C08".into(), kind: "drops".into(), detail: format!("{}: payloads of slots {:?} were dropped, the specification says {:?}", c.op, gs, exp.drops), case: mk(json!(exp.drops), json!(gs)) });
        }
        // no payload of a live node is dropped; every live node reads its own value
        for (slot, ser) in &post {
            if log.contains(ser) || before_drops.contains(ser) {
                st.violation(keep, Finding { prop: "C08".into(), kind: "dropped-while-live".into(), detail: format!("payload of live slot {} was dropped", slot), case: mk(json!(null), json!(slot)) });
            }
        }
        let pj = sim.proj();
        for s in 0..pj.count.min(exp.post.count) {
            if pj.val[s] != exp.post.val[s] {
                st.violation(keep, Finding { prop: "C08".into(), kind: "payload".into(), detail: format!("payload of slot {} reads {} expected {}", s + 1, pj.val[s], exp.post.val[s]), case: mk(json!(exp.post.val), json!(pj.val)) });
            }
        }
        // surviving nodes kept their very payload object (not a swapped equal-looking one)
        for (slot, ser) in &pre {
            if !exp.drops.contains(slot) {
                if post.get(slot) != Some(ser) {
                    st.violation(keep, Finding { prop: "C08".into(), kind: "relocated".into(), detail: format!("slot {} no longer holds the payload object it held before the call", slot), case: mk(json!(null), json!(slot)) });
                }
            }
        }
        // dropping the arena destroys every remaining payload exactly once
        let remaining: Vec<u64> = post.values().copied().collect();
        drop(sim);
        let fin = take_log();
        let mut f2 = fin.clone();
        f2.sort();
        let mut r2 = remaining.clone();
        r2.sort();
        let f2: Vec<u64> = f2.into_iter().filter(|s| r2.contains(s) || true).collect();
        let dup = f2.windows(2).any(|w| w[0] == w[1]);
        let missing: Vec<&u64> = r2.iter().filter(|s| !f2.contains(s)).collect();
        if dup || !missing.is_empty() {
            st.violation(keep, Finding { prop: "C08".into(), kind: "arena-drop".into(), detail: format!("dropping the arena: duplicates={} payloads never dropped={}", dup, missing.len()), case: mk(json!(null), json!(null)) });
        }
    }
}
