//! impl -> spec: seeded drivers run histories on the real crate and log one ndjson event
//! per public call with the projected state; TLC validates the log against Trace.tla.
//!
//! The drivers only make *valid* calls in the sense of the properties: node arguments are
//! the newest id of a slot (live, or removed and not yet recycled); detach / remove /
//! remove_subtree / payload writes only on live nodes. They deliberately do not avoid
//! failing inserts (self, ancestors, removed ids), top-level sibling chains or recycling.

use crate::sim::*;
use rand::rngs::StdRng;
use rand::{Rng, SeedableRng};
use serde_json::json;
use std::io::Write;

pub struct Recorder<P: Payload + Clone> {
    pub sim: Sim<P>,
    pub out: std::io::BufWriter<std::fs::File>,
    pub pending: String,
    pub events: u64,
    pub rng: StdRng,
    pub next_val: u32,
    /// id tokens that were skipped by state injection (no real id exists for them)
    pub phantom: u32,
    pub broken: bool,
    /// an arena holding an EARLIER state of some history (its own vacant slots, stamps, free list): the destination of
    /// the next `clone_from`
    pub scratch: Option<indextree::Arena<P>>,
    pub swaps: u64,
}

impl<P: Payload + Clone> Recorder<P> {
    pub fn new(path: &str, seed: u64) -> Self {
        let f = std::fs::File::create(path).expect("cannot create trace file");
        Recorder { sim: Sim::new(), out: std::io::BufWriter::new(f), pending: format!("{}.pending", path), events: 0, rng: StdRng::seed_from_u64(seed), next_val: 1, phantom: 0, broken: false, scratch: None, swaps: 0 }
    }

    fn isrem_sample(&mut self) -> Vec<[u32; 2]> {
        let n = self.sim.issued.len();
        let mut idx: Vec<usize> = Vec::new();
        for i in 0..n.min(4) {
            idx.push(i);
        }
        for i in n.saturating_sub(48)..n {
            idx.push(i);
        }
        for _ in 0..8 {
            if n > 0 {
                idx.push(self.rng.gen_range(0..n));
            }
        }
        idx.sort();
        idx.dedup();
        let a = &self.sim.arena;
        idx.into_iter()
            .map(|i| {
                let id = self.sim.issued[i];
                let r = std::panic::catch_unwind(std::panic::AssertUnwindSafe(|| id.is_removed(a)));
                [i as u32 + 1, match r { Ok(true) => 1, Ok(false) => 0, Err(_) => 2 }]
            })
            .collect()
    }

    fn state_fields(&mut self, ev: &mut serde_json::Value) {
        let p = self.sim.proj();
        let live: Vec<usize> = p.live.iter().enumerate().filter(|(_, l)| **l).map(|(i, _)| i + 1).collect();
        ev["count"] = json!(p.count);
        ev["live"] = json!(live);
        ev["links"] = json!(p.links);
        ev["val"] = json!(p.val);
        ev["drain"] = json!(self.sim.drain());
        ev["cap"] = json!(self.sim.arena.capacity());
        ev["isrem"] = json!(self.isrem_sample());
        // C11: get_node_id_at for every position 1..count+2, as id tokens (0 = None, -1 = an id never issued)
        let a = &self.sim.arena;
        let idat: Vec<i64> = (1..=(p.count + 2))
            .map(|pos| match a.get_node_id_at(std::num::NonZeroUsize::new(pos).unwrap()) {
                None => 0,
                Some(id) => {
                    let t = self.sim.tok_of(id);
                    if t == 0 { -1 } else { t as i64 }
                }
            })
            .collect();
        ev["idat"] = json!(idat);
        ev["empty"] = json!(a.is_empty());
    }

    fn emit(&mut self, ev: serde_json::Value) {
        writeln!(self.out, "{}", ev).unwrap();
        self.out.flush().unwrap();
        self.events += 1;
    }

    pub fn reset(&mut self, cap: usize) {
        self.sim = if cap > 0 { Sim::with_capacity(cap) } else { Sim::new() };
        self.phantom = 0;
        let cap_now = self.sim.arena.capacity();
        if cap_now < cap {
            // with_capacity(n) must give room for n nodes (C13): logged as a reserve-like fact
        }
        self.emit(json!({"op": "reset", "a": cap, "cap": cap_now}));
    }

    /// The public accessors themselves panicked while the state was read back (possible only on
    /// a corrupted arena): logged as a `broken` event, which the trace specification rejects.
    fn guarded<F: FnOnce(&mut Self)>(&mut self, f: F) -> bool {
        let r = std::panic::catch_unwind(std::panic::AssertUnwindSafe(|| f(self)));
        if let Err(p) = r {
            let msg = if let Some(s) = p.downcast_ref::<&str>() { s.to_string() } else if let Some(s) = p.downcast_ref::<String>() { s.clone() } else { "?".into() };
            self.emit(json!({"op": "broken", "a": 0, "msg": msg}));
            self.broken = true;
            return false;
        }
        true
    }

    pub fn call(&mut self, c: &Call) -> Done {
        if self.broken {
            return Done { class: "Ok".into(), new: 0, reissued_tok: 0, panic_msg: String::new() };
        }
        let mut done: Option<Done> = None;
        self.guarded(|me| done = Some(me.call_inner(c)));
        done.unwrap_or(Done { class: "Ok".into(), new: 0, reissued_tok: 0, panic_msg: String::new() })
    }

    fn call_inner(&mut self, c: &Call) -> Done {
        // a call that never returns is found by the driver through this file
        std::fs::write(&self.pending, json!({"event": self.events + 1, "call": c}).to_string()).ok();
        let prevcap = self.sim.arena.capacity();
        // payload objects in the arena before the call (slot -> serial), for the destructor log (C08)
        let pre: Vec<(usize, u64)> = if P::TRACKED {
            self.sim.arena.iter().enumerate().filter(|(_, n)| !n.is_removed())
                .map(|(i, n)| (i + 1, std::panic::catch_unwind(std::panic::AssertUnwindSafe(|| n.get().serial())).unwrap_or(0))).collect()
        } else {
            Vec::new()
        };
        if P::TRACKED {
            DROP_LOG.with(|l| l.borrow_mut().clear());
        }
        let d = self.sim.apply(c);
        // the payload token as it can be read back (a payload type may not preserve every token, e.g. None)
        let veff = if ["new", "append_value", "set"].contains(&c.op.as_str()) { P::make(c.v).tok() } else { c.v };
        let mut ev = json!({"op": c.op, "a": c.a, "b": c.b, "v": veff, "checked": c.checked, "res": d.class, "new": d.new, "prevcap": prevcap});
        if P::TRACKED {
            let log: Vec<u64> = DROP_LOG.with(|l| std::mem::take(&mut *l.borrow_mut()));
            let mut drops: Vec<usize> = pre.iter().filter(|(_, ser)| log.contains(ser)).map(|(s, _)| *s).collect();
            drops.sort();
            let twice = pre.iter().any(|(_, ser)| log.iter().filter(|x| *x == ser).count() > 1);
            ev["drops"] = json!(drops);
            ev["dropped_twice"] = json!(twice);
        }
        ev["newtok"] = json!(if d.new == 0 { 0 } else if d.reissued_tok != 0 { d.reissued_tok } else { self.sim.issued.len() as u32 });
        if !d.panic_msg.is_empty() {
            ev["panic"] = json!(d.panic_msg);
        }
        self.state_fields(&mut ev);
        self.emit(ev);
        std::fs::remove_file(&self.pending).ok();
        d
    }

    pub fn identity(&mut self, op: &str) {
        if self.broken {
            return;
        }
        self.guarded(|me| me.identity_inner(op));
    }

    fn identity_inner(&mut self, op: &str) {
        // the crate's own == between the copy and the original (the properties are stated with it)
        let mut eq = true;
        match op {
            "clone_swap" => {
                // the history continues on a copy: alternately a fresh clone() and an OLDER arena (an earlier state with
                // its own vacant slots, stamps and free list) overwritten by clone_from(&arena)
                self.swaps += 1;
                let c = match self.scratch.take() {
                    Some(mut old) if self.swaps % 2 == 0 => {
                        old.clone_from(&self.sim.arena);
                        old
                    }
                    _ => self.sim.arena.clone(),
                };
                eq = c == self.sim.arena;
                let prev = std::mem::replace(&mut self.sim.arena, c);
                self.scratch = Some(prev);
            }
            "round_trip" => match P::round_trip(&self.sim.arena) {
                Some((c, e)) => {
                    eq = e;
                    self.sim.arena = c;
                }
                None => return, // not available for this payload type / feature set
            },
            _ => {}
        }
        let mut ev = json!({"op": op, "a": 0, "eq": eq});
        self.state_fields(&mut ev);
        self.emit(ev);
    }

    pub fn observe(&mut self, slot: usize) {
        if self.broken {
            return;
        }
        // only live nodes are observed (the traversals of a removed node are not constrained by the specification)
        let live = std::panic::catch_unwind(std::panic::AssertUnwindSafe(|| slot >= 1 && slot <= self.sim.arena.count() && !self.sim.arena[self.sim.id(slot)].is_removed())).unwrap_or(false);
        if !live {
            return;
        }
        self.guarded(|me| me.observe_inner(slot));
    }

    fn observe_inner(&mut self, slot: usize) {
        let n = self.sim.arena.count();
        let o = self.sim.observe(slot, n + 1);
        let mut ev = json!({"op": "observe", "a": slot, "obs": o});
        // double-ended consumption (C10): rev() of the three double-ended iterators and a few pull words
        let words = ["FB", "BF", "BBF", "FFBB", "BFBFB"];
        ev["de"] = json!({
            "kidsRev": self.sim.reversed("kids", slot, n + 1),
            "precRev": self.sim.reversed("prec", slot, n + 1),
            "follRev": self.sim.reversed("foll", slot, n + 1),
            "words": words.iter().map(|w| w.chars().map(|c| c.to_string()).collect::<Vec<_>>()).collect::<Vec<_>>(),
            "kidsPulls": words.iter().map(|w| self.sim.pulls("kids", slot, w)).collect::<Vec<_>>(),
            "precPulls": words.iter().map(|w| self.sim.pulls("prec", slot, w)).collect::<Vec<_>>(),
            "follPulls": words.iter().map(|w| self.sim.pulls("foll", slot, w)).collect::<Vec<_>>(),
        });
        self.state_fields(&mut ev);
        self.emit(ev);
    }

    fn live_slots(&self) -> Vec<usize> {
        self.sim.arena.iter().enumerate().filter(|(_, n)| !n.is_removed()).map(|(i, _)| i + 1).collect()
    }

    fn pick(&mut self, v: &[usize]) -> usize {
        v[self.rng.gen_range(0..v.len())]
    }

    /// one random history
    pub fn drive(&mut self, mix: &str, events: u64, max_slots: usize) {
        let w = weights(mix);
        let total: u32 = w.iter().map(|x| x.1).sum();
        let start = self.events;
        while self.events - start < events && !self.broken {
            let mut go = true;
            self.guarded(|me| me.drive_one(&w, total, max_slots, &mut go));
            if !go {
                break;
            }
        }
    }

    fn drive_one(&mut self, w: &[(&'static str, u32)], total: u32, max_slots: usize, _go: &mut bool) {
        let ins = ["append", "prepend", "insert_after", "insert_before"];
        {
            let n = self.sim.arena.count();
            let live = self.live_slots();
            let mut r = self.rng.gen_range(0..total);
            let mut kind = "";
            for (k, wt) in w {
                if r < *wt {
                    kind = k;
                    break;
                }
                r -= wt;
            }
            let can_alloc = n < max_slots || !self.sim.drain().is_empty();
            match kind {
                "new" | "append_value" if !can_alloc => return,
                "new" => {
                    let v = self.next_val;
                    self.next_val += 1;
                    self.call(&Call { op: "new".into(), a: 0, b: 0, v, checked: false, r: vec![] });
                }
                "append_value" => {
                    if n == 0 {
                        return;
                    }
                    // mostly live parents, sometimes a removed one (must panic, C12)
                    let a = if !live.is_empty() && self.rng.gen_range(0..10) < 9 { self.pick(&live) } else { self.rng.gen_range(1..=n) };
                    let v = self.next_val;
                    self.next_val += 1;
                    self.call(&Call { op: "append_value".into(), a, b: 0, v, checked: false, r: vec![] });
                }
                "move" | "fail" => {
                    if n == 0 {
                        return;
                    }
                    let op = ins[self.rng.gen_range(0..4)];
                    let (a, b);
                    if kind == "move" {
                        if live.len() < 2 {
                            return;
                        }
                        a = self.pick(&live);
                        b = self.pick(&live);
                    } else {
                        // an argument relation that makes the insert impossible - or nearly so
                        a = self.rng.gen_range(1..=n);
                        let m = self.rng.gen_range(0..4);
                        b = match m {
                            0 => a,
                            1 => {
                                // a proper ancestor of a (if a is live and has one)
                                if live.contains(&a) {
                                    let id = self.sim.id(a);
                                    let anc: Vec<usize> = id.ancestors(&self.sim.arena).take(n + 1).skip(1).map(usize::from).collect();
                                    if anc.is_empty() { self.rng.gen_range(1..=n) } else { self.pick(&anc) }
                                } else {
                                    self.rng.gen_range(1..=n)
                                }
                            }
                            2 => {
                                let dead: Vec<usize> = (1..=n).filter(|s| !live.contains(s)).collect();
                                if dead.is_empty() { self.rng.gen_range(1..=n) } else { self.pick(&dead) }
                            }
                            _ => self.rng.gen_range(1..=n),
                        };
                    }
                    let checked = self.rng.gen_range(0..3) != 0;
                    self.call(&Call { op: op.into(), a, b, v: 0, checked, r: vec![] });
                }
                "tops" => {
                    // build / edit top-level sibling chains
                    let roots: Vec<usize> = live.iter().copied().filter(|s| self.sim.arena[self.sim.id(*s)].parent().is_none()).collect();
                    if roots.is_empty() || live.len() < 2 {
                        return;
                    }
                    let a = self.pick(&roots);
                    let b = self.pick(&live);
                    let op = if self.rng.gen_bool(0.5) { "insert_after" } else { "insert_before" };
                    self.call(&Call { op: op.into(), a, b, v: 0, checked: true, r: vec![] });
                }
                "detach" | "remove" | "remove_subtree" | "set" => {
                    if live.is_empty() {
                        return;
                    }
                    let a = self.pick(&live);
                    let v = if kind == "set" {
                        self.next_val += 1;
                        self.next_val + 1000
                    } else {
                        0
                    };
                    self.call(&Call { op: kind.into(), a, b: 0, v, checked: false, r: vec![] });
                }
                "clear" => {
                    self.call(&Call { op: "clear".into(), a: 0, b: 0, v: 0, checked: false, r: vec![] });
                }
                "reserve" => {
                    let k = self.rng.gen_range(0..40);
                    self.call(&Call { op: "reserve".into(), a: k, b: 0, v: 0, checked: false, r: vec![] });
                }
                "clone_swap" => self.identity("clone_swap"),
                "round_trip" => {
                    self.identity("round_trip")
                }
                "observe" => {
                    if live.is_empty() {
                        return;
                    }
                    let a = self.pick(&live);
                    self.observe(a);
                }
                _ => {}
            }
        }
    }

    /// Runs `cycles` remove/new_node cycles of the node in `slot` (a node without relatives) on the real
    /// arena WITHOUT logging each of them, then logs one `inject` event that stands for all of them.
    /// Every id issued on the way is real and stays in the is_removed sample population.
    pub fn fast_forward(&mut self, slot: usize, cycles: u32) -> Result<(), String> {
        // a payload that cannot be read (a call that panicked half-way left the slot in pieces) is data, not a tool error:
        // nothing is fast-forwarded then, the logged events around this point show the state as it is
        let tokv = match std::panic::catch_unwind(std::panic::AssertUnwindSafe(|| self.sim.arena[self.sim.id(slot)].get().tok())) {
            Ok(t) => t,
            Err(_) => return Ok(()),
        };
        // how many cycles go through silently: probe on a clone; stop before anything that the logged
        // events must show (slot not reused, id reissued, panic)
        let mut probe = self.sim.arena.clone();
        let mut pid = self.sim.id(slot);
        let mut seen: std::collections::HashSet<indextree::NodeId> = self.sim.toks.keys().copied().collect();
        let mut k = 0u32;
        while k < cycles {
            let r = std::panic::catch_unwind(std::panic::AssertUnwindSafe(|| {
                pid.remove(&mut probe);
                probe.new_node(P::make(tokv))
            }));
            match r {
                Ok(id) if usize::from(id) == slot && !seen.contains(&id) => {
                    seen.insert(id);
                    pid = id;
                    k += 1;
                }
                _ => break,
            }
        }
        let mut id = self.sim.id(slot);
        for _ in 0..k {
            id.remove(&mut self.sim.arena);
            id = self.sim.arena.new_node(P::make(tokv));
            self.sim.issued.push(id);
            self.sim.toks.insert(id, self.sim.issued.len() as u32);
            self.sim.ids[slot - 1] = id;
        }
        if k > 0 {
            let mut ev = json!({"op": "inject", "a": slot, "b": k});
            self.state_fields(&mut ev);
            self.emit(ev);
        }
        Ok(())
    }

    /// remove + new_node cycles of one slot, optionally with another slot free at the same time
    pub fn churn(&mut self, slot: usize, cycles: u32, other_free_every: u32, with_copies: bool) {
        // Liveness here is decided by the CALL HISTORY (an id returned by new_node and not yet passed to
        // remove is live for its owner), not by what the arena reports.
        // `extra`: a second node that is freed just before `slot` in some cycles, so that the free list
        // is not empty when `slot` is freed.
        let mut mine = true;
        let mut extra: usize = 0;
        let mut extra_mine = false;
        for i in 0..cycles {
            if !mine || self.broken {
                break;
            }
            let with_other = other_free_every > 0 && i % other_free_every == 0;
            if with_other {
                if !extra_mine {
                    let v = self.next_val;
                    self.next_val += 1;
                    let d = self.call(&Call { op: "new".into(), a: 0, b: 0, v, checked: false, r: vec![] });
                    if d.class == "Ok" && d.new != 0 && d.new != slot {
                        extra = d.new;
                        extra_mine = true;
                    }
                }
                if extra_mine {
                    self.call(&Call { op: "remove".into(), a: extra, b: 0, v: 0, checked: false, r: vec![] });
                    extra_mine = false;
                }
            }
            self.call(&Call { op: "remove".into(), a: slot, b: 0, v: 0, checked: false, r: vec![] });
            mine = false;
            // copies at regular intervals, and right after a removal that retired the slot
            let retired_now = !self.sim.drain().contains(&slot);
            if with_copies && (i % 5 == 2 || retired_now) {
                // a removed (possibly exhausted) slot must survive a serde round trip / a clone unchanged
                self.identity("round_trip");
                self.identity("clone_swap");
            }
            // allocate until nothing is reusable any more (at most the two slots just freed)
            for _ in 0..2 {
                if self.broken || self.sim.drain().is_empty() {
                    break;
                }
                let v = self.next_val;
                self.next_val += 1;
                let d = self.call(&Call { op: "new".into(), a: 0, b: 0, v, checked: false, r: vec![] });
                if d.class != "Ok" {
                    break;
                }
                if d.new == slot {
                    mine = true;
                } else if d.new == extra {
                    extra_mine = true;
                }
            }
        }
    }
}

pub fn weights(mix: &str) -> Vec<(&'static str, u32)> {
    match mix {
        "move" => vec![("new", 8), ("append_value", 8), ("move", 50), ("tops", 8), ("fail", 6), ("detach", 8), ("remove", 4), ("remove_subtree", 2), ("set", 2), ("observe", 3), ("clone_swap", 1)],
        "recycle" => vec![("new", 22), ("append_value", 14), ("move", 16), ("tops", 4), ("fail", 4), ("detach", 3), ("remove", 20), ("remove_subtree", 10), ("set", 3), ("observe", 9), ("round_trip", 1), ("clone_swap", 1)],
        "fail" => vec![("new", 8), ("append_value", 10), ("move", 14), ("tops", 4), ("fail", 44), ("detach", 4), ("remove", 8), ("remove_subtree", 4), ("set", 2), ("observe", 2)],
        "tops" => vec![("new", 10), ("append_value", 8), ("move", 14), ("tops", 34), ("fail", 6), ("detach", 6), ("remove", 12), ("remove_subtree", 5), ("set", 2), ("observe", 3)],
        // large subtrees move, leave and come back; few plain allocations (the tree is already there)
        "bushy" => vec![("new", 4), ("append_value", 6), ("move", 40), ("tops", 6), ("fail", 10), ("detach", 6), ("remove", 10), ("remove_subtree", 5), ("set", 1), ("observe", 10), ("clone_swap", 1), ("round_trip", 1)],
        // no serde / clone events: identical event sequences under every feature set (C17)
        "c17" => vec![("new", 14), ("append_value", 10), ("move", 24), ("tops", 8), ("fail", 10), ("detach", 6), ("remove", 12), ("remove_subtree", 6), ("set", 4), ("clear", 1), ("reserve", 2), ("observe", 3)],
        "values" => vec![("new", 12), ("append_value", 10), ("move", 14), ("tops", 4), ("fail", 4), ("detach", 4), ("remove", 10), ("remove_subtree", 5), ("set", 20), ("clear", 1), ("reserve", 6), ("clone_swap", 5), ("round_trip", 5)],
        _ => vec![("new", 12), ("append_value", 10), ("move", 26), ("tops", 8), ("fail", 10), ("detach", 6), ("remove", 10), ("remove_subtree", 5), ("set", 4), ("clear", 1), ("reserve", 2), ("observe", 3), ("clone_swap", 1), ("round_trip", 2)],
    }
}

pub fn run(args: &[String]) -> i32 {
    let payload = args.iter().position(|a| a == "--payload").and_then(|i| args.get(i + 1)).cloned().unwrap_or_default();
    if args.iter().any(|a| a == "--tracked-payload") || payload == "tracked" {
        run_with::<Tracked>(args)
    } else if payload == "string" {
        run_with::<String>(args)
    } else if payload == "rich" {
        run_with::<Rich>(args)
    } else if payload == "zst" {
        run_with::<Zst>(args)
    } else if payload == "large" {
        run_with::<Large>(args)
    } else if payload == "option" {
        run_with::<Option<u32>>(args)
    } else {
        run_with::<u32>(args)
    }
}

fn run_with<P: Payload + Clone>(args: &[String]) -> i32 {
    let get = |n: &str, d: &str| args.iter().position(|a| a == n).and_then(|i| args.get(i + 1)).cloned().unwrap_or_else(|| d.to_string());
    let out = get("--out", "trace.ndjson");
    let seed: u64 = get("--seed", "1").parse().unwrap();
    let events: u64 = get("--events", "1000").parse().unwrap();
    let segment: u64 = get("--segment", "400").parse().unwrap();
    let max_slots: usize = get("--max-slots", "10").parse().unwrap();
    let mix = get("--mix", "mixed");
    let mut r: Recorder<P> = Recorder::new(&out, seed);
    match mix.as_str() {
        "deep" => {
            // a very deep chain: ancestor relations over dozens of levels (limits hidden in ancestor walks)
            r.reset(0);
            let depth: usize = get("--depth", "0").parse().unwrap_or(0);
            let depth = if depth > 0 { depth } else { 66 + (seed % 4) as usize * 3 };     // 66 .. 75 unless --depth is given
            let root = r.call(&Call { op: "new".into(), a: 0, b: 0, v: 1, checked: false, r: vec![] }).new;
            let mut chain = vec![root];
            for i in 1..depth {
                let d = r.call(&Call { op: "append_value".into(), a: *chain.last().unwrap(), b: 0, v: i as u32 + 1, checked: false, r: vec![] });
                if d.new == 0 {
                    break;
                }
                chain.push(d.new);
            }
            let ins = ["append", "prepend", "insert_after", "insert_before"];
            let n = chain.len();
            // impossible inserts at distances around typical limits, each entry point
            for (k, dist) in [1usize, 2, 31, 32, 33, 63, 64, 65, n - 1].iter().enumerate() {
                if *dist >= n {
                    continue;
                }
                let a = chain[n - 1];
                let b = chain[n - 1 - dist];
                for (j, op) in ins.iter().enumerate() {
                    r.call(&Call { op: (*op).into(), a, b, v: 0, checked: (k + j) % 3 != 0, r: vec![] });
                }
                r.observe(a);
            }
            // and some possible moves / removals inside the deep chain, then ordinary life
            let mid = chain[n / 2];
            r.call(&Call { op: "detach".into(), a: mid, b: 0, v: 0, checked: false, r: vec![] });
            r.call(&Call { op: "append".into(), a: chain[n - 1], b: chain[1], v: 0, checked: true, r: vec![] });
            r.call(&Call { op: "insert_before".into(), a: chain[2], b: mid, v: 0, checked: true, r: vec![] });
            r.call(&Call { op: "remove".into(), a: chain[3], b: 0, v: 0, checked: false, r: vec![] });
            r.call(&Call { op: "remove_subtree".into(), a: chain[n - 8], b: 0, v: 0, checked: false, r: vec![] });
            if events > 0 {
                r.drive("fail", events, n + 2);
            }
        }
        "wide" => {
            // very wide sibling lists and long top-level chains (positions far from both ends)
            r.reset(0);
            let width: usize = get("--width", "0").parse().unwrap_or(0);
            let w: usize = if width > 0 { width } else { 18 + (seed % 4) as usize * 4 };            // 18 .. 30 children unless --width is given
            let root = r.call(&Call { op: "new".into(), a: 0, b: 0, v: 1, checked: false, r: vec![] }).new;
            let mut kids = Vec::new();
            for i in 0..w {
                let d = r.call(&Call { op: "append_value".into(), a: root, b: 0, v: i as u32 + 2, checked: false, r: vec![] });
                kids.push(d.new);
            }
            // a long top-level chain next to the root
            let mut tops = vec![root];
            for i in 0..(w / 2) {
                let d = r.call(&Call { op: "new".into(), a: 0, b: 0, v: (100 + i) as u32, checked: false, r: vec![] });
                let after = tops[tops.len() - 1];
                r.call(&Call { op: if i % 2 == 0 { "insert_after" } else { "insert_before" }.into(), a: after, b: d.new, v: 0, checked: true, r: vec![] });
                tops.push(d.new);
            }
            let all: Vec<usize> = kids.iter().chain(tops.iter()).copied().filter(|s| *s != 0).collect();
            let ops = ["insert_after", "insert_before", "append", "prepend"];
            for k in 0..events.max(30) {
                if r.broken {
                    break;
                }
                let a = all[r.rng.gen_range(0..all.len())];
                let b = all[r.rng.gen_range(0..all.len())];
                let a_live = r.live_slots().contains(&a);
                match k % 7 {
                    0 | 1 | 2 if !a_live => {
                        // only live nodes may be observed / removed / detached; use the id in an insert instead
                        r.call(&Call { op: "append".into(), a: b, b: a, v: 0, checked: true, r: vec![] });
                    }
                    0 => r.observe(a),
                    1 => {
                        r.call(&Call { op: "remove".into(), a, b: 0, v: 0, checked: false, r: vec![] });
                    }
                    2 => {
                        r.call(&Call { op: "detach".into(), a, b: 0, v: 0, checked: false, r: vec![] });
                    }
                    _ => {
                        r.call(&Call { op: ops[(k % 4) as usize].into(), a, b, v: 0, checked: true, r: vec![] });
                    }
                }
            }
            r.observe(root);
        }
        "bushy" => {
            // medium-sized trees that are neither a chain nor a flat list: every new node is placed by one of the four insert
            // forms next to / under a random earlier node (fan-out and depth both grow); then subtrees are moved, removed and
            // recycled. Sizes sit between the exhaustively covered small forests and the 300 000-level / 700-wide probes.
            r.reset(0);
            let nodes: usize = get("--nodes", "0").parse().unwrap_or(0);
            let nodes = if nodes > 0 { nodes } else { 40 + (seed % 5) as usize * 13 };          // 40 .. 92 unless --nodes is given
            let root = r.call(&Call { op: "new".into(), a: 0, b: 0, v: 1, checked: false, r: vec![] }).new;
            let mut all = vec![root];
            let ins = ["append", "prepend", "insert_after", "insert_before"];
            let bias = (seed % 3) as usize;   // 0: uniform target, 1: recent targets (deep), 2: early targets (broad)
            for i in 1..nodes {
                if r.broken {
                    break;
                }
                let k = all.len();
                let t = match bias {
                    1 => all[k - 1 - r.rng.gen_range(0..k.min(4))],
                    2 => all[r.rng.gen_range(0..k.min(6 + i / 8))],
                    _ => all[r.rng.gen_range(0..k)],
                };
                if i % 3 == 0 {
                    let d = r.call(&Call { op: "append_value".into(), a: t, b: 0, v: i as u32 + 1, checked: false, r: vec![] });
                    if d.new != 0 {
                        all.push(d.new);
                    }
                } else {
                    let d = r.call(&Call { op: "new".into(), a: 0, b: 0, v: i as u32 + 1, checked: false, r: vec![] });
                    if d.new == 0 {
                        break;
                    }
                    // siblings of the first root are allowed too (top-level chains)
                    let op = ins[r.rng.gen_range(0..4)];
                    r.call(&Call { op: op.into(), a: t, b: d.new, v: 0, checked: i % 2 == 0, r: vec![] });
                    all.push(d.new);
                }
            }
            for s in [root, all[all.len() / 2], all[all.len() - 1]] {
                if r.live_slots().contains(&s) {
                    r.observe(s);
                }
            }
            r.drive("bushy", events.max(30), nodes + 12);
            let live = r.live_slots();
            if !live.is_empty() && !r.broken {
                let a = live[live.len() / 3];
                r.observe(a);
            }
        }
        "churn200" => {
            // a few hundred recycles of one slot, then ordinary life (used to compare builds, C17)
            r.reset(0);
            let d = r.call(&Call { op: "new".into(), a: 0, b: 0, v: 1, checked: false, r: vec![] });
            r.call(&Call { op: "new".into(), a: 0, b: 0, v: 2, checked: false, r: vec![] });
            r.churn(d.new, 200 + (seed % 50) as u32, 3, false);
            r.drive("c17", events, max_slots);
        }
        "boundary-full" => {
            // the end of the generation counter of the LAST slot of a storage that is exactly full
            // (with_capacity(4), four nodes): what a full Vec does next must not disturb a retired slot
            r.reset(4);
            let mut last = 0;
            for v in 1..=4u32 {
                last = r.call(&Call { op: "new".into(), a: 0, b: 0, v, checked: false, r: vec![] }).new;
            }
            if let Err(e) = r.fast_forward(last, 32750 + (seed % 11) as u32) {
                eprintln!("harness: fast-forward failed: {}", e);
                return 2;
            }
            if seed % 2 == 0 {
                // plain remove / new_node cycles: the storage stays exactly full (4 of 4) until the slot is used up; the
                // allocations that follow must open new slots and never hand out an id of the used-up one again
                r.churn(last, 60, 0, false);
                for _ in 0..6 {
                    let v = r.next_val;
                    r.next_val += 1;
                    r.call(&Call { op: "new".into(), a: 0, b: 0, v, checked: false, r: vec![] });
                }
                r.drive("recycle", 60, 10);
                r.out.flush().unwrap();
                println!("{}", json!({"events": r.events, "out": out, "seed": seed, "mix": mix}));
                return 0;
            }
            // the last generations go away through remove_subtree, the slot having a left sibling and a child each time
            // (a slot that is retired instead of recycled must be left as bare as any other removed slot)
            r.call(&Call { op: "append".into(), a: 1, b: 2, v: 0, checked: true, r: vec![] });
            let mut cur = last;
            for _ in 0..40 {
                if r.broken || !r.live_slots().contains(&cur) {
                    break;
                }
                r.call(&Call { op: "append".into(), a: 1, b: cur, v: 0, checked: true, r: vec![] });
                let v = r.next_val;
                r.next_val += 1;
                r.call(&Call { op: "append_value".into(), a: cur, b: 0, v, checked: false, r: vec![] });
                r.call(&Call { op: "remove_subtree".into(), a: cur, b: 0, v: 0, checked: false, r: vec![] });
                let mut back = 0;
                for _ in 0..2 {
                    let v = r.next_val;
                    r.next_val += 1;
                    let d = r.call(&Call { op: "new".into(), a: 0, b: 0, v, checked: false, r: vec![] });
                    if d.class == "Ok" && d.new == last {
                        back = d.new;
                    }
                }
                if back == 0 {
                    break; // retired (or no longer handed out): life goes on without it
                }
                cur = back;
            }
            r.drive("recycle", 60, 8);
        }
        "boundary-long" => {
            // an implementation that never retires a slot (allowed) must still never reissue an id: when the slot keeps
            // coming back after 32 768 generations it is driven through 70 000 more (every id checked for freshness)
            r.reset(0);
            let slot = r.call(&Call { op: "new".into(), a: 0, b: 0, v: 1, checked: false, r: vec![] }).new;
            r.call(&Call { op: "new".into(), a: 0, b: 0, v: 2, checked: false, r: vec![] });
            if let Err(e) = r.fast_forward(slot, 32750) {
                eprintln!("harness: fast-forward failed: {}", e);
                return 2;
            }
            r.churn(slot, 40, 0, false);
            for round in 0..3 {
                // does the slot still come back?
                let live = r.live_slots().contains(&slot);
                let cur = if live {
                    slot
                } else {
                    let v = r.next_val;
                    r.next_val += 1;
                    r.call(&Call { op: "new".into(), a: 0, b: 0, v, checked: false, r: vec![] }).new
                };
                if cur != slot || r.broken {
                    break;
                }
                if let Err(e) = r.fast_forward(slot, if round == 0 { 32700 } else { 40000 }) {
                    eprintln!("harness: fast-forward failed: {}", e);
                    return 2;
                }
                r.churn(slot, 80, 0, false);
            }
            r.drive("recycle", 40, 5);
        }
        "boundary" | "boundary-real" | "boundary-plain" => {
            // C06/C07 at the end of the generation counter of one slot
            let real = mix == "boundary-real";
            r.reset(0);
            let d = r.call(&Call { op: "new".into(), a: 0, b: 0, v: 1, checked: false, r: vec![] });
            let slot = d.new;
            // a second, permanently live node so that the arena is not trivial
            r.call(&Call { op: "new".into(), a: 0, b: 0, v: 2, checked: false, r: vec![] });
            let variant = seed % 3;
            if !real && seed % 4 == 3 {
                // two different slots exhausted, their last generations removed one right after the other
                let d2 = r.call(&Call { op: "new".into(), a: 0, b: 0, v: 3, checked: false, r: vec![] });
                let slot2 = d2.new;
                for s in [slot, slot2] {
                    if let Err(e) = r.fast_forward(s, 32766) {
                        eprintln!("harness: fast-forward failed: {}", e);
                        return 2;
                    }
                }
                // both now carry the one-before-last generation: one more cycle each, then remove both
                for s in [slot, slot2] {
                    r.call(&Call { op: "remove".into(), a: s, b: 0, v: 0, checked: false, r: vec![] });
                    r.call(&Call { op: "new".into(), a: 0, b: 0, v: 9, checked: false, r: vec![] });
                }
                r.call(&Call { op: "remove".into(), a: slot, b: 0, v: 0, checked: false, r: vec![] });
                r.call(&Call { op: "remove".into(), a: slot2, b: 0, v: 0, checked: false, r: vec![] });
                // keep removing and re-creating whatever comes back (liveness by call history), so that a slot
                // that is wrongly handed out again goes through further generations
                let mut mine: Vec<usize> = Vec::new();
                for _ in 0..3 {
                    let v = r.next_val;
                    r.next_val += 1;
                    let d = r.call(&Call { op: "new".into(), a: 0, b: 0, v, checked: false, r: vec![] });
                    if d.class == "Ok" && d.new != 0 {
                        mine.push(d.new);
                    }
                }
                for _round in 0..4 {
                    let cur = std::mem::take(&mut mine);
                    for s in &cur {
                        r.call(&Call { op: "remove".into(), a: *s, b: 0, v: 0, checked: false, r: vec![] });
                    }
                    for _ in 0..cur.len() {
                        let v = r.next_val;
                        r.next_val += 1;
                        let d = r.call(&Call { op: "new".into(), a: 0, b: 0, v, checked: false, r: vec![] });
                        if d.class == "Ok" && d.new != 0 {
                            mine.push(d.new);
                        }
                    }
                }
                r.drive(if mix == "boundary-plain" { "c17" } else { "recycle" }, 60, 6);
            } else if real {
                r.churn(slot, 32790, if variant == 0 { 0 } else { 4000 + (seed % 7) as u32 }, true);
                // the last cycles with another slot free at the same time
            } else {
                // stop a few generations before the end of the counter (the cycles are really executed)
                if let Err(e) = r.fast_forward(slot, 32750 + (seed % 11) as u32) {
                    eprintln!("harness: fast-forward failed: {}", e);
                    return 2;
                }
                // "boundary-plain": without clone / serde copies, so that the history is the same under every feature set
                r.churn(slot, 60, match variant { 0 => 0, 1 => 1, _ => 3 }, mix != "boundary-plain");
            }
            // and life goes on afterwards
            r.drive(if mix == "boundary-plain" { "c17" } else { "recycle" }, 60, 5);
        }
        _ => {
            let mut done = 0;
            let mut k = 0;
            while done < events {
                let cap = [0usize, 0, 3, 16, 0][(k % 5) as usize];
                // now and then a large capacity that must survive clear() (capacities beyond typical thresholds)
                let cap = if mix == "values" && k % 2 == 1 { [70000usize, 1500, 5000][(k as usize / 2) % 3] } else { cap };
                r.reset(cap);
                if cap >= 1000 {
                    for _ in 0..3 {
                        let v = r.next_val;
                        r.next_val += 1;
                        r.call(&Call { op: "new".into(), a: 0, b: 0, v, checked: false, r: vec![] });
                    }
                    r.call(&Call { op: "remove".into(), a: 2, b: 0, v: 0, checked: false, r: vec![] });
                    r.call(&Call { op: "clear".into(), a: 0, b: 0, v: 0, checked: false, r: vec![] });
                }
                let n = segment.min(events - done);
                let ms = if k % 3 == 2 { max_slots / 2 + 1 } else { max_slots };
                r.drive(&mix, n, ms);
                done += n;
                k += 1;
            }
        }
    }
    r.out.flush().unwrap();
    println!("{}", json!({"events": r.events, "out": out, "seed": seed, "mix": mix}));
    0
}
