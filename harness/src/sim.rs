//! Driving the real `indextree::Arena` and projecting its observable state.
//!
//! Nothing in this file knows what a tree operation is *supposed* to do: it only
//! calls the public API, catches panics, and reads back what the API reports.
//! Every expected value comes from the TLA+ specification (bundles produced by
//! TLC, or TLC validating the recorded trace).

use indextree::{Arena, NodeEdge, NodeId};
use serde::{Deserialize, Serialize};
use std::cell::RefCell;
use std::collections::HashMap;
use std::num::NonZeroUsize;
use std::panic::{catch_unwind, AssertUnwindSafe};

/// serde round trip through serde_json (self-describing) and through the binary format of wire.rs (not self-describing):
/// the JSON copy, and whether both copies equal the original and the JSON copy re-serialises alike
#[cfg(feature = "it_deser")]
pub fn rt_both<T: Serialize + serde::de::DeserializeOwned + PartialEq>(a: &Arena<T>) -> Option<(Arena<T>, bool)> {
    let s = serde_json::to_string(a).ok()?;
    let c: Arena<T> = serde_json::from_str(&s).ok()?;
    let mut eq = c == *a && serde_json::to_string(&c).ok()? == s;
    match crate::wire::to_bytes(a).and_then(|b| crate::wire::from_bytes::<Arena<T>>(&b)) {
        Ok(w) => eq = eq && w == *a,
        Err(_) => eq = false,
    }
    Some((c, eq))
}

/// Payload types the harness can store in an arena.
pub trait Payload: PartialEq + std::fmt::Debug + Sized + 'static {
    fn make(tok: u32) -> Self;
    fn tok(&self) -> u32;
    fn serial(&self) -> u64 {
        0
    }
    /// destructor runs are recorded in DROP_LOG
    const TRACKED: bool = false;
    /// serde round trip of an arena of this payload type, and whether copy == original and re-serialises alike
    fn round_trip(_a: &Arena<Self>) -> Option<(Arena<Self>, bool)> {
        None
    }
}

impl Payload for u32 {
    fn make(tok: u32) -> Self {
        tok
    }
    fn tok(&self) -> u32 {
        *self
    }
    #[cfg(feature = "it_deser")]
    fn round_trip(a: &Arena<Self>) -> Option<(Arena<Self>, bool)> {
        rt_both(a)
    }
}

impl Payload for String {
    fn make(tok: u32) -> Self {
        // some payloads look like other JSON values
        match tok % 5 {
            0 => format!("{}", tok),
            1 => format!("null#{}", tok),
            _ => format!("p{}", tok),
        }
    }
    fn tok(&self) -> u32 {
        self.trim_start_matches(|c: char| !c.is_ascii_digit()).parse().unwrap_or(u32::MAX)
    }
    #[cfg(feature = "it_deser")]
    fn round_trip(a: &Arena<Self>) -> Option<(Arena<Self>, bool)> {
        rt_both(a)
    }
}

/// a payload that exercises more of serde's data model: options, enums with and without data, nesting
#[derive(Debug, Clone, PartialEq, Serialize, Deserialize)]
pub enum Kind {
    Unit,
    Num(u8),
    Pair { a: i64, b: Option<bool> },
}
#[derive(Debug, Clone, PartialEq, Serialize, Deserialize)]
pub struct Rich {
    pub tok: u32,
    pub tag: Option<String>,
    pub kind: Kind,
    pub list: Vec<Option<u32>>,
}
impl Payload for Rich {
    fn make(tok: u32) -> Self {
        Rich {
            tok,
            tag: if tok % 3 == 0 { None } else { Some(format!("t{}", tok)) },
            kind: match tok % 4 {
                0 => Kind::Unit,
                1 => Kind::Num(tok as u8),
                _ => Kind::Pair { a: -(tok as i64), b: if tok % 2 == 0 { None } else { Some(true) } },
            },
            list: (0..(tok % 3)).map(|i| if i == 1 { None } else { Some(tok + i) }).collect(),
        }
    }
    fn tok(&self) -> u32 {
        self.tok
    }
    #[cfg(feature = "it_deser")]
    fn round_trip(a: &Arena<Self>) -> Option<(Arena<Self>, bool)> {
        rt_both(a)
    }
}

/// a zero-sized payload (all nodes share "the same" value; Vec<Node<Zst>> still has per-node storage)
#[derive(Debug, Clone, PartialEq)]
pub struct Zst;
impl Payload for Zst {
    fn make(_tok: u32) -> Self {
        Zst
    }
    fn tok(&self) -> u32 {
        0
    }
}

/// a large payload (a node is several cache lines; moves of nodes inside the Vec copy a lot)
#[derive(Debug, Clone, PartialEq)]
pub struct Large(pub [u64; 40]);
impl Payload for Large {
    fn make(tok: u32) -> Self {
        let mut a = [tok as u64; 40];
        a[39] = !(tok as u64);
        Large(a)
    }
    fn tok(&self) -> u32 {
        // every word must still carry the token
        if self.0[..39].iter().all(|w| *w == self.0[0]) && self.0[39] == !self.0[0] { self.0[0] as u32 } else { u32::MAX }
    }
}

/// Option payloads: `None` serialises like an absent value
impl Payload for Option<u32> {
    fn make(tok: u32) -> Self {
        if tok % 4 == 3 { None } else { Some(tok) }
    }
    fn tok(&self) -> u32 {
        self.unwrap_or(0)
    }
    #[cfg(feature = "it_deser")]
    fn round_trip(a: &Arena<Self>) -> Option<(Arena<Self>, bool)> {
        let s = serde_json::to_string(a).ok()?;
        let c: Arena<Option<u32>> = serde_json::from_str(&s).ok()?;
        let eq = c == *a && serde_json::to_string(&c).ok()? == s;
        Some((c, eq))
    }
}

thread_local! {
    pub static DROP_LOG: RefCell<Vec<u64>> = const { RefCell::new(Vec::new()) };
    static SERIAL: RefCell<u64> = const { RefCell::new(0) };
}

/// A payload with identity and an observable destructor (C08).
#[derive(Debug)]
pub struct Tracked {
    pub tok: u32,
    pub serial: u64,
}
impl PartialEq for Tracked {
    fn eq(&self, o: &Self) -> bool {
        self.tok == o.tok
    }
}
/// a clone is a different payload object (its own serial, its own destructor run)
impl Clone for Tracked {
    fn clone(&self) -> Self {
        Tracked::make(self.tok)
    }
}
impl Drop for Tracked {
    fn drop(&mut self) {
        let s = self.serial;
        DROP_LOG.with(|l| l.borrow_mut().push(s));
    }
}
impl Payload for Tracked {
    fn make(tok: u32) -> Self {
        let serial = SERIAL.with(|s| {
            let mut s = s.borrow_mut();
            *s += 1;
            *s
        });
        Tracked { tok, serial }
    }
    fn tok(&self) -> u32 {
        self.tok
    }
    fn serial(&self) -> u64 {
        self.serial
    }
    const TRACKED: bool = true;
}

/// A call of the public API, as written by the specification. Node arguments are
/// slot numbers (1-based); each stands for the newest id issued for that slot.
#[derive(Debug, Clone, Serialize, Deserialize, PartialEq)]
pub struct Call {
    pub op: String,
    #[serde(default)]
    pub a: usize,
    #[serde(default)]
    pub b: usize,
    #[serde(default)]
    pub v: u32,
    #[serde(default)]
    pub checked: bool,
    #[serde(default, skip_serializing_if = "Vec::is_empty")]
    pub r: Vec<usize>,
}

/// What the real crate did.
#[derive(Debug, Clone, Serialize, Deserialize, PartialEq)]
pub struct Done {
    /// "Ok", "Panic", "Self", "Removed", "Ancestor", or "Err:<variant>" for an unknown variant
    pub class: String,
    /// slot of the node created by the call (0 = none)
    pub new: usize,
    /// the id returned for a created node was already issued before (token of the earlier issue)
    pub reissued_tok: u32,
    pub panic_msg: String,
}

/// Projection of the observable arena state.
#[derive(Debug, Clone, Serialize, Deserialize, PartialEq, Eq, Hash)]
pub struct Proj {
    pub count: usize,
    /// per slot: `Node::is_removed()` is false
    pub live: Vec<bool>,
    /// per slot <<parent, prev, next, first, last>>: slot number of the target, 0 = None,
    /// negative = the link carries an id that is not the newest id of that slot
    pub links: Vec<[i64; 5]>,
    /// payload token per slot (0 for removed slots)
    pub val: Vec<u32>,
}

pub fn classify_err(e: &indextree::NodeError) -> String {
    let n = format!("{:?}", e);
    if n.contains("Self") {
        "Self".into()
    } else if n.contains("Removed") {
        "Removed".into()
    } else if n.contains("Ancestor") {
        "Ancestor".into()
    } else {
        // an error variant this harness does not know (renamed / new): accepted wherever the specification
        // expects the call to be refused; only atomicity is checked then
        "ErrUnknown".into()
    }
}

pub struct Sim<P: Payload> {
    pub arena: Arena<P>,
    /// newest id issued per slot (index = slot-1)
    pub ids: Vec<NodeId>,
    /// every id ever issued -> token (issue ordinal, 1-based)
    pub toks: HashMap<NodeId, u32>,
    /// ids in order of issue (index = token-1)
    pub issued: Vec<NodeId>,
}

impl<P: Payload> Sim<P> {
    pub fn new() -> Self {
        Sim { arena: Arena::new(), ids: Vec::new(), toks: HashMap::new(), issued: Vec::new() }
    }
    pub fn with_capacity(n: usize) -> Self {
        Sim { arena: Arena::with_capacity(n), ids: Vec::new(), toks: HashMap::new(), issued: Vec::new() }
    }
    pub fn id(&self, slot: usize) -> NodeId {
        self.ids[slot - 1]
    }

    fn note_new(&mut self, id: NodeId) -> (usize, u32) {
        let slot: usize = id.into();
        let mut re = 0;
        if let Some(t) = self.toks.get(&id) {
            re = *t;
        } else {
            self.issued.push(id);
            self.toks.insert(id, self.issued.len() as u32);
        }
        if slot > self.ids.len() {
            // a well-behaved arena grows by one; be defensive about anything else
            while self.ids.len() < slot {
                self.ids.push(id);
            }
        }
        self.ids[slot - 1] = id;
        (slot, re)
    }

    /// Applies one call to the real arena. A panic is data, not an error.
    pub fn apply(&mut self, c: &Call) -> Done {
        let mut done = Done { class: "Ok".into(), new: 0, reissued_tok: 0, panic_msg: String::new() };
        let n = self.ids.len();
        let arg = |s: usize| -> Option<NodeId> {
            if s >= 1 && s <= n {
                Some(self.ids[s - 1])
            } else {
                None
            }
        };
        let a = arg(c.a);
        let b = arg(c.b);
        let arena = &mut self.arena;
        let mut newid: Option<NodeId> = None;
        let r = catch_unwind(AssertUnwindSafe(|| -> Result<(), indextree::NodeError> {
            match c.op.as_str() {
                "new" => {
                    newid = Some(arena.new_node(P::make(c.v)));
                    Ok(())
                }
                "append_value" => {
                    newid = Some(a.unwrap().append_value(P::make(c.v), arena));
                    Ok(())
                }
                "append" => {
                    if c.checked {
                        a.unwrap().checked_append(b.unwrap(), arena)
                    } else {
                        a.unwrap().append(b.unwrap(), arena);
                        Ok(())
                    }
                }
                "prepend" => {
                    if c.checked {
                        a.unwrap().checked_prepend(b.unwrap(), arena)
                    } else {
                        a.unwrap().prepend(b.unwrap(), arena);
                        Ok(())
                    }
                }
                "insert_after" => {
                    if c.checked {
                        a.unwrap().checked_insert_after(b.unwrap(), arena)
                    } else {
                        a.unwrap().insert_after(b.unwrap(), arena);
                        Ok(())
                    }
                }
                "insert_before" => {
                    if c.checked {
                        a.unwrap().checked_insert_before(b.unwrap(), arena)
                    } else {
                        a.unwrap().insert_before(b.unwrap(), arena);
                        Ok(())
                    }
                }
                "detach" => {
                    a.unwrap().detach(arena);
                    Ok(())
                }
                "remove" => {
                    a.unwrap().remove(arena);
                    Ok(())
                }
                "remove_subtree" => {
                    a.unwrap().remove_subtree(arena);
                    Ok(())
                }
                "set" => {
                    // three spellings of a payload write, rotated by value
                    let id = a.unwrap();
                    match c.v % 3 {
                        0 => *arena.get_mut(id).unwrap().get_mut() = P::make(c.v),
                        1 => *arena[id].get_mut() = P::make(c.v),
                        _ => {
                            let pos: usize = id.into();
                            let node = arena.iter_mut().nth(pos - 1).unwrap();
                            *node.get_mut() = P::make(c.v)
                        }
                    }
                    Ok(())
                }
                "clear" => {
                    arena.clear();
                    Ok(())
                }
                "reserve" => {
                    arena.reserve(c.a);
                    Ok(())
                }
                other => panic!("harness: unknown op {}", other),
            }
        }));
        match r {
            Ok(Ok(())) => {}
            Ok(Err(e)) => done.class = classify_err(&e),
            Err(p) => {
                done.class = "Panic".into();
                done.panic_msg = if let Some(s) = p.downcast_ref::<&str>() {
                    s.to_string()
                } else if let Some(s) = p.downcast_ref::<String>() {
                    s.clone()
                } else {
                    "?".into()
                };
            }
        }
        if let Some(id) = newid {
            let (slot, re) = self.note_new(id);
            done.new = slot;
            done.reissued_tok = re;
        }
        if c.op == "clear" && done.class == "Ok" {
            self.ids.clear();
            self.toks.clear();
            self.issued.clear();
        }
        done
    }

    fn link(&self, l: Option<NodeId>) -> i64 {
        match l {
            None => 0,
            Some(id) => {
                let s: usize = id.into();
                if s >= 1 && s <= self.ids.len() && self.ids[s - 1] == id {
                    s as i64
                } else {
                    -(s as i64)
                }
            }
        }
    }

    pub fn proj(&self) -> Proj {
        let n = self.arena.count();
        let mut live = Vec::with_capacity(n);
        let mut links = Vec::with_capacity(n);
        let mut val = Vec::with_capacity(n);
        for node in self.arena.iter() {
            let alive = !node.is_removed();
            live.push(alive);
            links.push([
                self.link(node.parent()),
                self.link(node.previous_sibling()),
                self.link(node.next_sibling()),
                self.link(node.first_child()),
                self.link(node.last_child()),
            ]);
            val.push(if alive {
                catch_unwind(AssertUnwindSafe(|| node.get().tok())).unwrap_or(u32::MAX)
            } else {
                0
            });
        }
        Proj { count: n, live, links, val }
    }

    /// `NodeId::is_removed` for every id ever issued (index = token-1); a panic reads as 2
    pub fn removed_flags(&self) -> Vec<u8> {
        self.issued
            .iter()
            .map(|id| match catch_unwind(AssertUnwindSafe(|| id.is_removed(&self.arena))) {
                Ok(true) => 1,
                Ok(false) => 0,
                Err(_) => 2,
            })
            .collect()
    }

    pub fn tok_of(&self, id: NodeId) -> u32 {
        self.toks.get(&id).copied().unwrap_or(0)
    }
}

impl<P: Payload + Clone> Sim<P> {
    /// the different ways an empty arena can come to be (C13: behaviour is a function of the call history alone)
    pub fn origin(k: u64) -> Self {
        let arena: Arena<P> = match k % 8 {
            6 => Arena::with_capacity(600),
            7 => {
                let mut a: Arena<P> = Arena::new();
                a.new_node(P::make(0));
                a.clear();
                a.reserve(1100);
                a
            }
            0 => Arena::new(),
            1 => Arena::default(),
            2 => Arena::with_capacity(0),
            3 => {
                let e: Arena<P> = Arena::new();
                #[allow(clippy::redundant_clone)]
                let c = e.clone();
                c
            }
            4 => {
                let mut a: Arena<P> = Arena::with_capacity(5);
                let x = a.new_node(P::make(0));
                x.append_value(P::make(0), &mut a);
                a.clear();
                a
            }
            _ => {
                let mut a: Arena<P> = Arena::new();
                a.reserve(3);
                a
            }
        };
        Sim { arena, ids: Vec::new(), toks: HashMap::new(), issued: Vec::new() }
    }

    pub fn fork(&self) -> Self {
        // a clone has no spare capacity; the copy gets the original's slack back, so that behaviour that depends on
        // `len < capacity` is the same in the copy
        let mut arena = self.arena.clone();
        let slack = self.arena.capacity().saturating_sub(self.arena.count());
        if slack > 0 {
            arena.reserve(slack);
        }
        Sim { arena, ids: self.ids.clone(), toks: self.toks.clone(), issued: self.issued.clone() }
    }

    /// Allocates on a clone until `count()` grows: the slots obtained are exactly the
    /// reusable ones. Bounded, so a broken free list cannot hang the harness.
    pub fn drain(&self) -> Vec<usize> {
        let mut a = self.arena.clone();
        let n0 = a.count();
        let mut got = Vec::new();
        for _ in 0..(n0 + 2) {
            let r = catch_unwind(AssertUnwindSafe(|| a.new_node(P::make(0))));
            match r {
                Ok(id) => {
                    if a.count() != n0 {
                        break;
                    }
                    got.push(usize::from(id));
                }
                Err(_) => {
                    got.push(usize::MAX);
                    break;
                }
            }
        }
        got
    }
}

// ---------------------------------------------------------------------------------------------
// Observers: everything a caller can read about a node (C09, C10, C11)
// ---------------------------------------------------------------------------------------------

#[derive(Debug, Clone, Serialize, Deserialize, PartialEq, Default)]
pub struct Obs {
    #[serde(default)]
    pub dead: bool,
    #[serde(default)]
    pub anc: Vec<i64>,
    #[serde(default)]
    pub pred: Vec<i64>,
    #[serde(default)]
    pub prec: Vec<i64>,
    #[serde(default)]
    pub foll: Vec<i64>,
    #[serde(default)]
    pub kids: Vec<i64>,
    #[serde(default)]
    pub rkids: Vec<i64>,
    #[serde(default)]
    pub desc: Vec<i64>,
    #[serde(default)]
    pub trav: Vec<[i64; 2]>,
    #[serde(default)]
    pub rtrav: Vec<[i64; 2]>,
    #[serde(default, rename = "nextS")]
    pub next_s: [i64; 2],
    #[serde(default, rename = "nextE")]
    pub next_e: [i64; 2],
    #[serde(default, rename = "prevS")]
    pub prev_s: [i64; 2],
    #[serde(default, rename = "prevE")]
    pub prev_e: [i64; 2],
}

impl<P: Payload + Clone> Sim<P> {
    fn edge(&self, e: Option<NodeEdge>) -> [i64; 2] {
        match e {
            None => [0, 0],
            Some(NodeEdge::Start(id)) => [1, self.link(Some(id))],
            Some(NodeEdge::End(id)) => [2, self.link(Some(id))],
        }
    }

    /// Reads every iterator from node `slot`, each bounded by `limit` items (an iterator
    /// that does not stop by itself yields `limit` items, which never matches the spec).
    #[allow(deprecated)]
    pub fn observe(&self, slot: usize, limit: usize) -> Obs {
        let a = &self.arena;
        let id = self.id(slot);
        let l = |it: &mut dyn Iterator<Item = NodeId>| -> Vec<i64> {
            it.take(limit).map(|i| self.link(Some(i))).collect()
        };
        let e = |it: &mut dyn Iterator<Item = NodeEdge>| -> Vec<[i64; 2]> {
            it.take(2 * limit).map(|x| self.edge(Some(x))).collect()
        };
        Obs {
            dead: false,
            anc: l(&mut id.ancestors(a)),
            pred: l(&mut id.predecessors(a)),
            prec: l(&mut id.preceding_siblings(a)),
            foll: l(&mut id.following_siblings(a)),
            kids: l(&mut id.children(a)),
            rkids: l(&mut id.reverse_children(a)),
            desc: l(&mut id.descendants(a)),
            trav: e(&mut id.traverse(a)),
            rtrav: e(&mut id.reverse_traverse(a)),
            next_s: self.edge(NodeEdge::Start(id).next_traverse(a)),
            next_e: self.edge(NodeEdge::End(id).next_traverse(a)),
            prev_s: self.edge(NodeEdge::Start(id).prev_traverse(a)),
            prev_e: self.edge(NodeEdge::End(id).prev_traverse(a)),
        }
    }

    /// The other ways of consuming an iterator must agree with repeated next(): count(), last(), fold()/for_each(), nth(),
    /// and size_hint() must bracket the number of items. Returns descriptions of disagreements (empty = all agree).
    /// Iterators that do not end within `limit` items are skipped (C02/C09 report those).
    pub fn consumers_disagree(&self, slot: usize, limit: usize) -> Vec<String> {
        let a = &self.arena;
        let id = self.id(slot);
        let mut out = Vec::new();
        fn chk<X: PartialEq + std::fmt::Debug + Copy, I: Iterator<Item = X> + Clone>(name: &str, mk: &dyn Fn() -> I, limit: usize, out: &mut Vec<String>) {
            let v: Vec<X> = mk().take(limit).collect();
            if v.len() >= limit {
                return;
            }
            let (lo, hi) = mk().size_hint();
            if lo > v.len() || hi.map_or(false, |h| h < v.len()) {
                out.push(format!("{}: size_hint() is ({}, {:?}) but {} items are yielded", name, lo, hi, v.len()));
            }
            let c = mk().count();
            if c != v.len() {
                out.push(format!("{}: count() is {} but repeated next() yields {} items", name, c, v.len()));
            }
            let l = mk().last();
            if l != v.last().copied() {
                out.push(format!("{}: last() is {:?} but the last item yielded by next() is {:?}", name, l, v.last()));
            }
            let f: Vec<X> = mk().fold(Vec::new(), |mut acc, x| {
                if acc.len() <= limit {
                    acc.push(x);
                }
                acc
            });
            if f != v {
                out.push(format!("{}: fold()/for_each() visits {:?} but next() yields {:?}", name, f, v));
            }
            for k in [0usize, 1, 2] {
                // a clone of a partially consumed iterator continues where the original is
                let mut it = mk();
                for _ in 0..k {
                    it.next();
                }
                let c: Vec<X> = it.clone().take(limit).collect();
                let o: Vec<X> = it.take(limit).collect();
                if c != o || o[..] != v[k.min(v.len())..] {
                    out.push(format!("{}: after {} items a clone() yields {:?}, the original {:?}, a fresh iterator {:?}", name, k, c, o, v));
                }
            }
            for k in [0usize, 1, 2] {
                let mut it = mk();
                let n = it.nth(k);
                let rest: Vec<X> = it.take(limit).collect();
                if n != v.get(k).copied() || (k < v.len() && rest[..] != v[k + 1..]) {
                    out.push(format!("{}: nth({}) is {:?} then {:?}, but next() yields {:?}", name, k, n, rest, v));
                }
            }
        }
        chk("ancestors", &|| id.ancestors(a), limit, &mut out);
        chk("predecessors", &|| id.predecessors(a), limit, &mut out);
        chk("preceding_siblings", &|| id.preceding_siblings(a), limit, &mut out);
        chk("following_siblings", &|| id.following_siblings(a), limit, &mut out);
        chk("children", &|| id.children(a), limit, &mut out);
        chk("reverse_children", &|| id.reverse_children(a), limit, &mut out);
        chk("descendants", &|| id.descendants(a), limit, &mut out);
        chk("traverse", &|| id.traverse(a), 2 * limit, &mut out);
        chk("reverse_traverse", &|| id.reverse_traverse(a), 2 * limit, &mut out);
        out
    }

    /// Consumes a double-ended iterator according to a pull word ('F' = next, 'B' = next_back).
    pub fn pulls(&self, which: &str, slot: usize, word: &str) -> Vec<i64> {
        let a = &self.arena;
        let id = self.id(slot);
        fn run<I: DoubleEndedIterator<Item = NodeId>>(mut it: I, word: &str) -> Vec<Option<NodeId>> {
            word.chars().map(|c| if c == 'F' { it.next() } else { it.next_back() }).collect()
        }
        let v = match which {
            "kids" => run(id.children(a), word),
            "prec" => run(id.preceding_siblings(a), word),
            "foll" => run(id.following_siblings(a), word),
            _ => panic!("harness: unknown iterator"),
        };
        v.into_iter().map(|x| self.link(x)).collect()
    }

    /// what is left after the pulls of `word`, seen through the different ways of consuming an iterator: repeated next()
    /// (bounded), count(), last(), fold() (= for_each / sum / ...), and rev() (bounded). Each on a fresh iterator.
    pub fn pulls_then(&self, which: &str, slot: usize, word: &str, limit: usize) -> (Vec<i64>, usize, i64, Vec<i64>, Vec<i64>) {
        let a = &self.arena;
        let id = self.id(slot);
        fn adv<I: DoubleEndedIterator<Item = NodeId>>(mut it: I, word: &str) -> I {
            for c in word.chars() {
                if c == 'F' {
                    it.next();
                } else {
                    it.next_back();
                }
            }
            it
        }
        macro_rules! with {
            ($f:expr) => {
                match which {
                    "kids" => $f(adv(id.children(a), word)),
                    "prec" => $f(adv(id.preceding_siblings(a), word)),
                    "foll" => $f(adv(id.following_siblings(a), word)),
                    _ => panic!("harness: unknown iterator"),
                }
            };
        }
        fn rest<I: DoubleEndedIterator<Item = NodeId>>(it: I, limit: usize) -> Vec<NodeId> {
            it.take(limit).collect()
        }
        let lim = limit;
        let r: Vec<NodeId> = with!(|it| rest(it, lim));
        if r.len() >= limit {
            // does not end: the internal-iteration consumers are not tried
            return (r.into_iter().map(|x| self.link(Some(x))).collect(), usize::MAX, 0, vec![], vec![]);
        }
        let count: usize = with!(|it| Iterator::count(it));
        let last: Option<NodeId> = with!(|it| Iterator::last(it));
        let folded: Vec<NodeId> = with!(|it| Iterator::fold(it, Vec::new(), |mut v: Vec<NodeId>, x| {
            if v.len() <= lim {
                v.push(x);
            }
            v
        }));
        let rev: Vec<NodeId> = with!(|it| rest(Iterator::rev(it), lim));
        // a clone taken after the pulls yields the same rest, from both ends (reported through `folded` / `rev`)
        fn cl<I: DoubleEndedIterator<Item = NodeId> + Clone>(it: I, lim: usize) -> (Vec<NodeId>, Vec<NodeId>) {
            (it.clone().take(lim).collect(), it.clone().rev().take(lim).collect())
        }
        let (cf, cb): (Vec<NodeId>, Vec<NodeId>) = with!(|it| cl(it, lim));
        let folded = if cf != r { cf } else { folded };
        let rev = if cb.iter().rev().copied().collect::<Vec<_>>() != r { cb } else { rev };
        let m = |v: Vec<NodeId>| -> Vec<i64> { v.into_iter().map(|x| self.link(Some(x))).collect() };
        (m(r), count, self.link(last), m(folded), m(rev))
    }

    /// `.rev()` of the three double-ended iterators, bounded
    pub fn reversed(&self, which: &str, slot: usize, limit: usize) -> Vec<i64> {
        let a = &self.arena;
        let id = self.id(slot);
        let v: Vec<NodeId> = match which {
            "kids" => id.children(a).rev().take(limit).collect(),
            "prec" => id.preceding_siblings(a).rev().take(limit).collect(),
            "foll" => id.following_siblings(a).rev().take(limit).collect(),
            _ => panic!("harness: unknown iterator"),
        };
        v.into_iter().map(|x| self.link(Some(x))).collect()
    }

    /// C11: what the lookup paths report. Returns a list of (what, position, observed token/number).
    pub fn lookups(&self) -> Lookups {
        let a = &self.arena;
        let n = a.count();
        let mut idat = Vec::new();
        for pos in 1..=(n + 2) {
            let r = a.get_node_id_at(NonZeroUsize::new(pos).unwrap());
            idat.push(match r {
                None => 0,
                Some(id) => {
                    let t = self.tok_of(id);
                    if t == 0 {
                        -1
                    } else {
                        t as i64
                    }
                }
            });
        }
        let mut agree = true;
        let mut notes = Vec::new();
        for (i, id) in self.ids.iter().enumerate() {
            let slot = i + 1;
            let by_index: &indextree::Node<P> = &a[*id];
            if by_index.is_removed() {
                // C11 speaks about live nodes; what get() returns for a removed id is not fixed by it
                continue;
            }
            let node_by_get = a.get(*id);
            match node_by_get {
                None => {
                    agree = false;
                    notes.push(format!("get(id of slot {}) is None", slot));
                }
                Some(g) => {
                    if !std::ptr::eq(g, by_index) {
                        agree = false;
                        notes.push(format!("get and Index disagree for slot {}", slot));
                    }
                    if !std::ptr::eq(g, &a.as_slice()[i]) || !std::ptr::eq(g, a.iter().nth(i).unwrap()) {
                        agree = false;
                        notes.push(format!("position of slot {} in as_slice()/iter() is not its index", slot));
                    }
                }
            }
            let u: usize = (*id).into();
            let nz: NonZeroUsize = (*id).into();
            if u != slot || nz.get() != slot || format!("{}", id) != format!("{}", slot) {
                agree = false;
                notes.push(format!("usize/NonZeroUsize/Display of id of slot {}: {} {} {}", slot, u, nz, id));
            }
            if by_index.is_removed() {
                continue;
            }
            // get_node_id of the live node
            if a.get_node_id(by_index) != Some(*id) {
                agree = false;
                notes.push(format!("get_node_id(&arena[id]) != id for slot {}", slot));
            }
        }
        // out of range
        let beyond = {
            // an id whose slot does not exist in this arena: take one from a bigger scratch arena
            let mut big: Arena<u8> = Arena::new();
            let mut last = None;
            for _ in 0..(n + 1) {
                last = Some(big.new_node(0));
            }
            last.unwrap()
        };
        let get_beyond_none = a.get(beyond).is_none();
        Lookups {
            count: n,
            iter_count: a.iter().count(),
            slice_len: a.as_slice().len(),
            is_empty: a.is_empty(),
            idat,
            agree,
            get_some: self.issued.iter().map(|id| a.get(*id).is_some()).collect(),
            get_beyond_none,
            notes,
        }
    }
}

#[derive(Debug, Clone, Serialize, Deserialize, PartialEq)]
pub struct Lookups {
    pub count: usize,
    pub iter_count: usize,
    pub slice_len: usize,
    pub is_empty: bool,
    /// token of get_node_id_at(pos) for pos in 1..count+2 (0 = None, -1 = an id never issued)
    pub idat: Vec<i64>,
    pub agree: bool,
    /// `get(id).is_some()` for EVERY id ever issued, stale ones included: no expectation is attached
    /// to this (stale ids are outside "valid calls"), it only enters the cross-build digest of C17
    #[serde(default)]
    pub get_some: Vec<bool>,
    pub get_beyond_none: bool,
    pub notes: Vec<String>,
}
