//! spec -> impl: replays TLC-generated test bundles against the real crate.
//!
//! A bundle describes one reachable state of the specification: a call path leading to
//! it, the projected state, the expected output of every observer, and for every enabled
//! call the outcome the specification allows. Everything is compared mechanically; the
//! only "knowledge" in this file is which property a mismatch belongs to.

use crate::sim::*;
use serde::{Deserialize, Serialize};
use serde_json::json;
use std::collections::{BTreeMap, HashMap, HashSet};
use std::io::{BufRead, Write};
use std::sync::atomic::{AtomicBool, AtomicU64, AtomicUsize, Ordering};
use std::sync::{mpsc, Arc, Mutex};
use std::time::{Duration, Instant};

#[derive(Debug, Clone, Deserialize, Serialize)]
pub struct SpecProj {
    pub count: usize,
    pub live: Vec<usize>,
    pub links: Vec<[i64; 5]>,
    pub avail: Vec<usize>,
    #[serde(default)]
    pub retired: Vec<usize>,
    #[serde(default)]
    pub gen: Vec<u32>,
    pub val: Vec<u32>,
    #[serde(rename = "capLow")]
    pub cap_low: usize,
    #[serde(default)]
    pub tok: Vec<u32>,
    #[serde(default)]
    pub nissued: u32,
    #[serde(default)]
    pub alive: Vec<u32>,
    #[serde(default)]
    pub idat: Vec<i64>,
    #[serde(default)]
    pub empty: bool,
}

#[derive(Debug, Clone, Deserialize, Serialize)]
pub struct Out {
    pub c: Call,
    pub res: Vec<String>,
    #[serde(rename = "resU", default)]
    pub res_u: Vec<String>,
    pub new: usize,
    #[serde(default)]
    pub drops: Vec<usize>,
    #[serde(rename = "capKeep", default)]
    pub cap_keep: bool,
    pub post: SpecProj,
}

#[derive(Debug, Clone, Deserialize, Serialize)]
pub struct Bundle {
    pub path: Vec<Call>,
    pub st: SpecProj,
    #[serde(default)]
    pub obs: Vec<Obs>,
    #[serde(default)]
    pub out: Vec<Out>,
}

/// expected results of pull words on a deque of length n: table[n][word] = positions (0 = None)
pub type DeTable = HashMap<usize, Vec<(String, Vec<usize>)>>;

#[derive(Debug, Clone, Serialize, Deserialize)]
pub struct Finding {
    pub prop: String,
    pub kind: String,
    pub detail: String,
    pub case: serde_json::Value,
}

#[derive(Default)]
pub struct Stats {
    pub bundles: u64,
    pub abandoned_policy: u64,
    pub path_failures: u64,
    pub cases: u64,
    pub nontrivial_cases: u64,
    pub observer_checks: u64,
    pub pull_checks: u64,
    pub lookup_checks: u64,
    pub checks: BTreeMap<String, u64>,
    pub violations: BTreeMap<String, u64>,
    pub findings: Vec<Finding>,
    pub classes: BTreeMap<String, u64>,
    /// distinct real (count, live, links) states met, each with the first case that produced it
    pub real_states: HashMap<Proj, String>,
    pub digest: u64,
    pub samples: Vec<serde_json::Value>,
    pub max_slots_seen: usize,
    pub hangs: u64,
    pub prefix_failed: bool,
    /// after-clear mode: bundles whose arena after "history; clear(); path" is not == the arena after "path" on a
    /// new arena although every observable result is the same (ids carry other stamps, say). Recorded, not a verdict.
    pub repr_differs_after_clear: u64,
    pub final_arena: Option<indextree::Arena<u32>>,
}

impl Stats {
    pub fn check(&mut self, prop: &str, n: u64) {
        *self.checks.entry(prop.to_string()).or_insert(0) += n;
    }
    pub fn violation(&mut self, keep: usize, f: Finding) {
        let n = self.violations.entry(f.prop.clone()).or_insert(0);
        *n += 1;
        let have = self.findings.iter().filter(|x| x.prop == f.prop && x.kind == f.kind).count();
        if have < keep {
            self.findings.push(f);
        }
    }
    pub fn merge(&mut self, o: Stats) {
        self.bundles += o.bundles;
        self.abandoned_policy += o.abandoned_policy;
        self.path_failures += o.path_failures;
        self.cases += o.cases;
        self.nontrivial_cases += o.nontrivial_cases;
        self.observer_checks += o.observer_checks;
        self.pull_checks += o.pull_checks;
        self.lookup_checks += o.lookup_checks;
        self.hangs += o.hangs;
        self.repr_differs_after_clear += o.repr_differs_after_clear;
        for (k, v) in o.checks {
            *self.checks.entry(k).or_insert(0) += v;
        }
        for (k, v) in o.violations {
            *self.violations.entry(k).or_insert(0) += v;
        }
        for (k, v) in o.classes {
            *self.classes.entry(k).or_insert(0) += v;
        }
        for f in o.findings {
            let have = self.findings.iter().filter(|x| x.prop == f.prop && x.kind == f.kind).count();
            if have < 3 {
                self.findings.push(f);
            }
        }
        for (k, w) in o.real_states {
            self.real_states.entry(k).or_insert(w);
        }
        self.digest = self.digest.wrapping_add(o.digest);
        for s in o.samples {
            if self.samples.len() < 6 {
                self.samples.push(s);
            }
        }
        self.max_slots_seen = self.max_slots_seen.max(o.max_slots_seen);
    }
}

fn note_state(st: &mut Stats, p: &Proj, b: &Bundle, c: Option<&Call>) {
    let mut k = p.clone();
    for v in k.val.iter_mut() {
        *v = 0;
    }
    if !st.real_states.contains_key(&k) {
        st.real_states.insert(k, json!({"path": b.path, "call": c.map(|x| json!(x)).unwrap_or(json!("-"))}).to_string());
    }
}

pub fn fnv(h: &mut u64, bytes: &[u8]) {
    for b in bytes {
        *h ^= *b as u64;
        *h = h.wrapping_mul(0x100000001b3);
    }
}

/// the property a mismatch in the *effect* of an operation belongs to
fn prop_of_op(op: &str) -> &'static str {
    match op {
        "append" | "prepend" | "insert_after" | "insert_before" | "detach" | "append_value" => "C03",
        "remove" | "remove_subtree" => "C04",
        "new" => "C07",
        "set" => "C08",
        "clear" | "reserve" => "C13",
        _ => "C03",
    }
}

#[derive(Clone, Default)]
pub struct Opts {
    pub observers: bool,
    pub outcomes: bool,
    pub pulls: bool,
    pub lookups: bool,
    pub roundtrip: bool,
    pub after_clear: bool,
    pub with_capacity: usize,
    pub origin_mix: bool,
    pub tracked: bool,
    pub clone_bisim: bool,
    pub post_pulls: bool,
    pub keep: usize,
}

fn sorted(mut v: Vec<usize>) -> Vec<usize> {
    v.sort();
    v
}

fn live_set(p: &Proj) -> Vec<usize> {
    p.live.iter().enumerate().filter(|(_, l)| **l).map(|(i, _)| i + 1).collect()
}

pub struct Ctx<'a> {
    pub opts: &'a Opts,
    pub detable: &'a DeTable,
    pub bundle_idx: u64,
    /// per worker: the arena of the previously processed bundle (any payload type), used as a
    /// non-fresh destination for clone_from
    pub scratch: &'a std::cell::RefCell<Option<indextree::Arena<u32>>>,
}

/// Progress marker read by the watchdog.
pub struct Progress {
    pub tick: AtomicU64,
    pub busy: AtomicBool,
    pub bundle_idx: AtomicU64,
    pub phase: AtomicUsize, // 0 path, 1 observers, 2 outcome
    pub out_idx: AtomicUsize,
    pub variant: AtomicUsize, // 0 checked/plain, 1 unchecked
    pub line: Mutex<Option<Arc<String>>>,
}
impl Progress {
    pub fn new() -> Self {
        Progress {
            tick: AtomicU64::new(0),
            busy: AtomicBool::new(false),
            bundle_idx: AtomicU64::new(0),
            phase: AtomicUsize::new(0),
            out_idx: AtomicUsize::new(0),
            variant: AtomicUsize::new(0),
            line: Mutex::new(None),
        }
    }
    fn at(&self, phase: usize, out_idx: usize, variant: usize) {
        self.phase.store(phase, Ordering::Relaxed);
        self.out_idx.store(out_idx, Ordering::Relaxed);
        self.variant.store(variant, Ordering::Relaxed);
        self.tick.fetch_add(1, Ordering::Relaxed);
    }
}

fn case_json(b: &Bundle, prefix: &Option<Vec<Call>>, call: Option<&Call>, expected: serde_json::Value, observed: serde_json::Value) -> serde_json::Value {
    json!({
        "prefix_then_clear": prefix,
        "path": b.path,
        "call": call,
        "expected": expected,
        "observed": observed,
    })
}

/// Compares the real state after a call with the state the specification prescribes.
#[allow(clippy::too_many_arguments)]
fn compare_post<P: Payload + Clone>(
    st: &mut Stats,
    keep: usize,
    b: &Bundle,
    prefix: &Option<Vec<Call>>,
    c: &Call,
    pre: &Proj,
    pre_cap: usize,
    sim: &Sim<P>,
    done: &Done,
    exp: &SpecProj,
    exp_new: usize,
    cap_keep: bool,
    effect_prop: &str,
) -> Proj {
    let got = sim.proj();
    let mk = |exp_v: serde_json::Value, got_v: serde_json::Value| case_json(b, prefix, Some(c), exp_v, got_v);
    let failed = done.class != "Ok";
    // count / live
    st.check(effect_prop, 1);
    let alloc = c.op == "new" || c.op == "append_value";
    if got.count != exp.count {
        let p = if alloc { "C07" } else { effect_prop };
        st.violation(keep, Finding { prop: p.into(), kind: "count".into(), detail: format!("count() is {} expected {}", got.count, exp.count), case: mk(json!(exp), json!(got)) });
    }
    if live_set(&got) != sorted(exp.live.clone()) {
        let p = if alloc { "C07" } else if failed { "C05" } else { effect_prop };
        st.violation(keep, Finding { prop: p.into(), kind: "live".into(), detail: format!("live slots {:?} expected {:?}", live_set(&got), exp.live), case: mk(json!(exp), json!(got)) });
    }
    if alloc && !failed {
        st.check("C07", 1);
        if done.new != exp_new {
            st.violation(keep, Finding { prop: "C07".into(), kind: "slot".into(), detail: format!("allocation returned slot {} expected {}", done.new, exp_new), case: mk(json!(exp), json!(got)) });
        }
    }
    // links
    let n = got.count.min(exp.count);
    for s in 0..n {
        let is_live = exp.live.contains(&(s + 1));
        if got.links[s] != exp.links[s] {
            if is_live {
                // for an allocation: existing nodes untouched / new node bare is C07, placement is C03
                let p = if c.op == "new" { "C07" } else if failed { "C05" } else { effect_prop };
                st.violation(keep, Finding { prop: p.into(), kind: "links".into(), detail: format!("links of live slot {} are {:?} expected {:?} (parent, prev, next, first, last)", s + 1, got.links[s], exp.links[s]), case: mk(json!(exp), json!(got)) });
            } else {
                // a removed slot must report no relatives (C12). Attributed to the call that
                // produced it: the slot was live before, or its links changed in this call.
                let inherited = s < pre.count && !pre.live[s] && pre.links[s] == got.links[s];
                if !inherited {
                    st.violation(keep, Finding { prop: "C12".into(), kind: "removed-links".into(), detail: format!("removed slot {} reports links {:?}", s + 1, got.links[s]), case: mk(json!(exp), json!(got)) });
                }
            }
        }
    }
    st.check("C12", 1);
    // payloads
    st.check("C08", 1);
    for s in 0..n {
        if got.val[s] != exp.val[s] {
            st.violation(keep, Finding { prop: "C08".into(), kind: "payload".into(), detail: format!("payload of slot {} reads {} expected {}", s + 1, got.val[s], exp.val[s]), case: mk(json!(exp), json!(got)) });
        }
    }
    // free set (drain of a clone)
    st.check("C07", 1);
    let drained = sim.drain();
    let mut ds = drained.clone();
    ds.sort();
    let dup = ds.windows(2).any(|w| w[0] == w[1]);
    if dup || ds != sorted(exp.avail.clone()) {
        st.violation(keep, Finding { prop: "C07".into(), kind: "free-set".into(), detail: format!("allocating on a clone until count() grows yields slots {:?}, reusable slots are {:?}", drained, exp.avail), case: mk(json!(exp), json!(got)) });
    }
    // ids: freshness and is_removed of every id ever issued
    st.check("C06", 1);
    if done.reissued_tok != 0 {
        st.violation(keep, Finding { prop: "C06".into(), kind: "reissued".into(), detail: format!("the id returned for the new node in slot {} equals id #{} issued earlier", done.new, done.reissued_tok), case: mk(json!(exp), json!(got)) });
    }
    if !(c.op == "clear" && !failed) {
        let flags = sim.removed_flags();
        for (i, fl) in flags.iter().enumerate() {
            let t = (i + 1) as u32;
            let want = if exp.alive.contains(&t) { 0 } else { 1 };
            if *fl != want {
                st.violation(keep, Finding { prop: "C06".into(), kind: "is_removed".into(), detail: format!("is_removed of id #{} (issue order) is {} expected {}", t, fl, want), case: mk(json!(exp), json!(got)) });
            }
        }
    }
    // capacity
    st.check("C13", 1);
    let cap = sim.arena.capacity();
    if cap < exp.cap_low || (cap_keep && cap != pre_cap) {
        st.violation(keep, Finding { prop: "C13".into(), kind: "capacity".into(), detail: format!("capacity() is {} (was {}), required >= {}{}", cap, pre_cap, exp.cap_low, if cap_keep { " and unchanged" } else { "" }), case: mk(json!(exp), json!(got)) });
    }
    got
}

/// C10 (and the "at most once" clause of C02): the double-ended consumption of children /
/// preceding_siblings / following_siblings against the deque oracle of TLC, applied to the sequence
/// the SAME real iterator yields when consumed forwards. This is a law of the iterators themselves,
/// so it is also checked in real states that differ from the specification's.
fn pulls_of_slot<P: Payload + Clone>(st: &mut Stats, ctx: &Ctx, b: &Bundle, prefix: &Option<Vec<Call>>, sim: &Sim<P>, slot: usize, limit: usize, spec: Option<&Obs>) {
    let keep = ctx.opts.keep;
    // in a state that conforms to the specification the forward sequence is the specification's (so a
    // truncated forward iteration cannot make the double-ended runs look consistent); otherwise it is
    // what the same real iterator yields when consumed forwards
    let real = sim.observe(slot, limit);
    let got = spec.unwrap_or(&real);
    for (which, fwd) in [("kids", &got.kids), ("prec", &got.prec), ("foll", &got.foll)] {
        if fwd.len() >= limit {
            continue; // does not terminate: C02/C09 report that
        }
        st.check("C10", 1);
        let r = sim.reversed(which, slot, limit);
        let mut want: Vec<i64> = fwd.clone();
        want.reverse();
        st.pull_checks += 1;
        if r != want {
            st.violation(keep, Finding { prop: "C10".into(), kind: format!("rev:{}", which), detail: format!("{}.rev() from slot {} yields {:?}, forward iteration yields {:?}", which, slot, r, fwd), case: case_json(b, prefix, None, json!(want), json!(r)) });
        }
        if let Some(words) = ctx.detable.get(&fwd.len()) {
            for (w, positions) in words {
                st.pull_checks += 1;
                st.check("C10", 1);
                let got = sim.pulls(which, slot, w);
                let want: Vec<i64> = positions.iter().map(|p| if *p == 0 { 0 } else { fwd[*p - 1] }).collect();
                st.check("C02", 1);
                let mut nz: Vec<i64> = got.iter().copied().filter(|x| *x != 0).collect();
                nz.sort();
                if nz.windows(2).any(|w| w[0] == w[1]) {
                    st.violation(keep, Finding { prop: "C02".into(), kind: format!("yielded-twice:{}", which), detail: format!("{} from slot {} under pull word {} yields {:?}: a node is yielded more than once", which, slot, w, got), case: case_json(b, prefix, None, json!({"word": w, "want": want}), json!(got)) });
                }
                if got != want {
                    st.violation(keep, Finding { prop: "C10".into(), kind: format!("pulls:{}", which), detail: format!("{} from slot {} under pull word {} yields {:?} expected {:?} (forward iteration yields {:?})", which, slot, w, got, want, fwd), case: case_json(b, prefix, None, json!({"word": w, "want": want}), json!(got)) });
                } else if w.len() <= 4 {
                    // what is left after these pulls is the same however it is consumed (every element exactly once):
                    // repeated next(), count(), last(), fold()/for_each(), rev()
                    let left: Vec<i64> = (1..=fwd.len()).filter(|p| !positions.contains(p)).map(|p| fwd[p - 1]).collect();
                    let (rest, count, last, folded, rev) = sim.pulls_then(which, slot, w, limit);
                    let mut left_rev = left.clone();
                    left_rev.reverse();
                    st.pull_checks += 1;
                    let bad = if rest != left {
                        Some(format!("repeated next() yields {:?}", rest))
                    } else if count != left.len() {
                        Some(format!("count() is {}", count))
                    } else if last != left.last().copied().unwrap_or(0) {
                        Some(format!("last() is {}", last))
                    } else if folded != left {
                        Some(format!("fold()/for_each() or a clone() taken at this point visits {:?}", folded))
                    } else if rev != left_rev {
                        Some(format!("rev() (of the iterator or of a clone taken at this point) yields {:?}", rev))
                    } else {
                        None
                    };
                    if let Some(d) = bad {
                        st.violation(keep, Finding { prop: "C10".into(), kind: format!("after-pulls:{}", which), detail: format!("{} from slot {} after the pulls {}: {}, but the elements not yet yielded are {:?} (forward iteration yields {:?})", which, slot, w, d, left, fwd), case: case_json(b, prefix, None, json!({"word": w, "left": left}), json!({"next": rest, "count": count, "last": last, "fold": folded, "rev": rev})) });
                    }
                }
            }
        }
    }
}

fn post_pulls<P: Payload + Clone>(st: &mut Stats, ctx: &Ctx, b: &Bundle, prefix: &Option<Vec<Call>>, c: &Call, f: &Sim<P>) {
    let keep = ctx.opts.keep;
    let n = f.arena.count();
    let limit = n + 1;
    let words = ["B", "FB", "BF", "BBF", "FFBB", "BFBFB", "BBBBBBBB"];
    for slot in 1..=n {
        if f.arena[f.id(slot)].is_removed() {
            continue;
        }
        let real = f.observe(slot, limit);
        for (which, fwd) in [("kids", &real.kids), ("prec", &real.prec), ("foll", &real.foll)] {
            if fwd.len() >= limit {
                continue;
            }
            st.check("C10", 1);
            st.pull_checks += 1;
            let r = f.reversed(which, slot, limit);
            let mut want: Vec<i64> = fwd.clone();
            want.reverse();
            if r != want {
                st.violation(keep, Finding { prop: "C10".into(), kind: format!("post:rev:{}", which), detail: format!("after {}(a={}, b={}): {}.rev() from slot {} yields {:?}, forward iteration yields {:?}", c.op, c.a, c.b, which, slot, r, fwd), case: case_json(b, prefix, Some(c), json!(want), json!(r)) });
            }
            for w in words {
                st.pull_checks += 1;
                let got = f.pulls(which, slot, w);
                // the deque on the forward sequence (same rule as Observers!Pulls; table rows exist for short sequences)
                let want: Option<Vec<i64>> = ctx.detable.get(&fwd.len()).and_then(|rows| rows.iter().find(|(ww, _)| ww == w).map(|(_, pos)| pos.iter().map(|p| if *p == 0 { 0 } else { fwd[*p - 1] }).collect()));
                if let Some(want) = want {
                    if got != want {
                        st.violation(keep, Finding { prop: "C10".into(), kind: format!("post:pulls:{}", which), detail: format!("after {}(a={}, b={}): {} from slot {} under pull word {} yields {:?} expected {:?}", c.op, c.a, c.b, which, slot, w, got, want), case: case_json(b, prefix, Some(c), json!(want), json!(got)) });
                    }
                }
            }
        }
    }
}

fn compare_observers<P: Payload + Clone>(st: &mut Stats, ctx: &Ctx, b: &Bundle, prefix: &Option<Vec<Call>>, sim: &Sim<P>, prog: &Progress) {
    let keep = ctx.opts.keep;
    let n = b.st.count;
    let limit = n + 1;
    for slot in 1..=n {
        if !b.st.live.contains(&slot) {
            continue;
        }
        prog.at(1, slot, 0);
        let exp = &b.obs[slot - 1];
        let got = sim.observe(slot, limit);
        st.observer_checks += 13;
        st.check("C09", 13);
        st.check("C02", 9);
        macro_rules! cmp {
            ($f:ident, $name:expr, $lim:expr) => {
                if got.$f != exp.$f {
                    let nonterm = got.$f.len() >= $lim;
                    let p = if nonterm { "C02" } else { "C09" };
                    st.violation(keep, Finding { prop: p.into(), kind: format!("iter:{}", $name), detail: format!("{} from slot {} yields {:?} expected {:?}{}", $name, slot, got.$f, exp.$f, if nonterm { " (did not stop within the bound)" } else { "" }), case: case_json(b, prefix, None, json!(exp), json!(got)) });
                }
            };
        }
        cmp!(anc, "ancestors", limit);
        cmp!(pred, "predecessors", limit);
        cmp!(prec, "preceding_siblings", limit);
        cmp!(foll, "following_siblings", limit);
        cmp!(kids, "children", limit);
        cmp!(rkids, "reverse_children", limit);
        cmp!(desc, "descendants", limit);
        cmp!(trav, "traverse", 2 * limit);
        cmp!(rtrav, "reverse_traverse", 2 * limit);
        macro_rules! cmpe {
            ($f:ident, $name:expr) => {
                if got.$f != exp.$f {
                    st.violation(keep, Finding { prop: "C09".into(), kind: format!("edge:{}", $name), detail: format!("{} of slot {} is {:?} expected {:?}", $name, slot, got.$f, exp.$f), case: case_json(b, prefix, None, json!(exp), json!(got)) });
                }
            };
        }
        if st.samples.len() < 2 && ctx.bundle_idx % 997 == 3 && got.desc.len() >= 2 {
            st.samples.push(json!({"path": b.path, "observers_of_slot": slot, "observed": got, "pull_word_example": if ctx.opts.pulls { json!({"word": "FBB", "children_yield": sim.pulls("kids", slot, "FBB")}) } else { json!(null) }}));
        }
        cmpe!(next_s, "next_traverse(Start)");
        cmpe!(next_e, "next_traverse(End)");
        cmpe!(prev_s, "prev_traverse(Start)");
        cmpe!(prev_e, "prev_traverse(End)");

        // the sequence is the same however the iterator is consumed (count / last / fold / nth; size_hint brackets it)
        st.check("C09", 9);
        st.observer_checks += 9;
        for d in sim.consumers_disagree(slot, limit) {
            st.violation(keep, Finding { prop: "C09".into(), kind: "consumer".into(), detail: format!("from slot {}: {}", slot, d), case: case_json(b, prefix, None, json!(exp), json!(got)) });
        }

        if ctx.opts.pulls {
            pulls_of_slot(st, ctx, b, prefix, sim, slot, limit, Some(exp));
        }
    }
    if ctx.opts.lookups {
        compare_lookups(st, ctx, b, prefix, sim);
    }
}

fn compare_lookups<P: Payload + Clone>(st: &mut Stats, ctx: &Ctx, b: &Bundle, prefix: &Option<Vec<Call>>, sim: &Sim<P>) {
    let keep = ctx.opts.keep;
    {
        st.lookup_checks += 1;
        st.check("C11", 1);
        let lk = match std::panic::catch_unwind(std::panic::AssertUnwindSafe(|| sim.lookups())) {
            Ok(l) => l,
            Err(p) => {
                let msg = if let Some(s) = p.downcast_ref::<&str>() { s.to_string() } else if let Some(s) = p.downcast_ref::<String>() { s.clone() } else { "?".into() };
                st.violation(keep, Finding { prop: "C11".into(), kind: "lookup-panicked".into(), detail: format!("a lookup (get / Index / get_node_id / get_node_id_at / conversions) panicked: {}", msg), case: case_json(b, prefix, None, json!(b.st), json!(msg)) });
                return;
            }
        };
        let mut bad = Vec::new();
        if lk.count != b.st.count || lk.iter_count != b.st.count || lk.slice_len != b.st.count {
            bad.push(format!("count()/iter().count()/as_slice().len() = {}/{}/{} expected {}", lk.count, lk.iter_count, lk.slice_len, b.st.count));
        }
        if lk.is_empty != b.st.empty {
            bad.push(format!("is_empty() = {} expected {}", lk.is_empty, b.st.empty));
        }
        if lk.idat != b.st.idat {
            bad.push(format!("get_node_id_at(1..count+2) gives id tokens {:?} expected {:?}", lk.idat, b.st.idat));
        }
        if !lk.agree {
            bad.extend(lk.notes.clone());
        }
        if !lk.get_beyond_none {
            bad.push("get(id beyond count) is not None".into());
        }
        // node references from other arenas (both directions: one of the two buffers lies lower in memory)
        let foreign = std::panic::catch_unwind(std::panic::AssertUnwindSafe(|| {
            let mut bad: Vec<String> = Vec::new();
            let other = sim.arena.clone();
            for node in other.iter() {
                if sim.arena.get_node_id(node).is_some() {
                    bad.push("get_node_id(node of a clone) is not None".into());
                    break;
                }
            }
            for node in sim.arena.iter() {
                if other.get_node_id(node).is_some() {
                    bad.push("clone.get_node_id(node of the original) is not None".into());
                    break;
                }
            }
            let mut unrelated: indextree::Arena<P> = indextree::Arena::with_capacity(3);
            let u = unrelated.new_node(P::make(0));
            if sim.arena.get_node_id(&unrelated[u]).is_some() {
                bad.push("get_node_id(node of an unrelated arena) is not None".into());
            }
            for node in sim.arena.iter() {
                if unrelated.get_node_id(node).is_some() {
                    bad.push("unrelated.get_node_id(node of this arena) is not None".into());
                    break;
                }
            }
            // a node that lives outside any arena
            let loose: indextree::Arena<P> = indextree::Arena::new();
            if let Some(n) = sim.arena.iter().next() {
                if loose.get_node_id(n).is_some() {
                    bad.push("empty_arena.get_node_id(node) is not None".into());
                }
            }
            bad
        }));
        match foreign {
            Ok(v) => bad.extend(v),
            Err(p) => {
                let msg = if let Some(s) = p.downcast_ref::<&str>() { s.to_string() } else if let Some(s) = p.downcast_ref::<String>() { s.clone() } else { "?".into() };
                bad.push(format!("get_node_id with a node of another arena panicked: {}", msg));
            }
        }
        for d in bad {
            st.violation(keep, Finding { prop: "C11".into(), kind: "lookup".into(), detail: d, case: case_json(b, prefix, None, json!(b.st), json!(lk)) });
        }
    }
}

/// `--via-clone-from` (read here, not in main.rs: main.rs holds the bundle extractor and is part of the bundle cache key)
fn via_clone_from() -> bool {
    static ON: std::sync::OnceLock<bool> = std::sync::OnceLock::new();
    *ON.get_or_init(|| std::env::args().any(|a| a == "--via-clone-from"))
}

/// Result of running one bundle (fresh, or after a prefix + clear()).
fn run_bundle<P: Payload + Clone>(ctx: &Ctx, b: &Bundle, prefix: &Option<Vec<Call>>, prog: &Progress, st: &mut Stats) {
    let keep = ctx.opts.keep;
    let mut sim: Sim<P> = if ctx.opts.origin_mix { Sim::origin(ctx.bundle_idx) } else if ctx.opts.with_capacity > 0 { Sim::with_capacity(ctx.opts.with_capacity) } else { Sim::new() };
    let mut digest: u64 = 0xcbf29ce484222325;
    prog.at(0, 0, 0);
    if let Some(pre) = prefix {
        for c in pre {
            let d = sim.apply(c);
            let want_slot = if c.op == "new" { c.a } else if c.op == "append_value" { c.b } else { 0 };
            if d.class != "Ok" || (want_slot != 0 && d.new != want_slot) {
                // the earlier history cannot be reproduced as written (e.g. another allocation order):
                // nothing to compare for this bundle; the prefix itself is checked as a bundle of its own
                st.prefix_failed = true;
                return;
            }
        }
        let d = sim.apply(&Call { op: "clear".into(), a: 0, b: 0, v: 0, checked: false, r: vec![] });
        if d.class != "Ok" {
            st.violation(keep, Finding { prop: "C13".into(), kind: "clear".into(), detail: format!("clear() -> {} {}", d.class, d.panic_msg), case: case_json(b, prefix, None, json!(null), json!(d)) });
            return;
        }
    }
    // 1. the path
    for (i, c) in b.path.iter().enumerate() {
        prog.at(0, i, 0);
        let d = sim.apply(c);
        let want_slot = if c.op == "new" { c.a } else if c.op == "append_value" { c.b } else { 0 };
        if d.class == "Ok" && want_slot != 0 && d.new != want_slot {
            // the crate took another slot than the FIFO guess of the generator: not an error
            st.abandoned_policy += 1;
            return;
        }
        if d.class != "Ok" {
            st.path_failures += 1;
            let p = if c.op == "append_value" || ["append", "prepend", "insert_after", "insert_before"].contains(&c.op.as_str()) { "C05" } else { "C05" };
            st.violation(keep, Finding { prop: p.into(), kind: "path-call-failed".into(), detail: format!("valid call #{} of the path ({} a={} b={}) -> {} {}", i + 1, c.op, c.a, c.b, d.class, d.panic_msg), case: case_json(b, prefix, Some(c), json!("Ok"), json!(d)) });
            return;
        }
    }
    // the state under test is reached through `dst.clone_from(&arena)` onto a USED destination (the previous bundle's arena on
    // this worker): every comparison below then speaks about an arena that came to be that way (a hand-written clone_from
    // that forgets a link, a stamp or a free-list end shows in the property whose comparison reads it)
    let mut via_pre_ok = false;
    if via_clone_from() && prefix.is_none() {
        {
            let pre = sim.proj();
            let ll = (0..pre.count.min(b.st.count)).all(|s| !pre.live[s] || pre.links[s] == b.st.links[s]);
            via_pre_ok = pre.count == b.st.count && live_set(&pre) == sorted(b.st.live.clone()) && ll && pre.val == b.st.val;
        }
        if let Some(su) = (&mut sim as &mut dyn std::any::Any).downcast_mut::<Sim<u32>>() {
            let mut dst = ctx.scratch.borrow_mut().take().unwrap_or_else(indextree::Arena::new);
            dst.clone_from(&su.arena);
            let old = std::mem::replace(&mut su.arena, dst);
            *ctx.scratch.borrow_mut() = Some(old);
        }
    }
    let base = sim.proj();
    st.max_slots_seen = st.max_slots_seen.max(base.count);
    // links of REMOVED slots are not part of the forest: a removed slot that still reports relatives is
    // reported (C12) at the call that left them, and must not hide what happens later on the path
    let live_links_ok = (0..base.count.min(b.st.count)).all(|s| !base.live[s] || base.links[s] == b.st.links[s]);
    let base_ok = base.count == b.st.count && live_set(&base) == sorted(b.st.live.clone()) && live_links_ok && base.val == b.st.val;
    if !base_ok && via_pre_ok {
        // the path gave the specification's state and the copy made by clone_from does not show it: "a clone compares equal to
        // its original" (C13). The calls and observers of the bundle are still compared on the copy - every property whose
        // comparison reads what the copy got wrong reports it (a removed node that looks live is accepted by an insert: C12, ...)
        st.violation(keep, Finding { prop: "C13".into(), kind: "clone_from-state".into(), detail: "dst.clone_from(&arena) onto a used destination: the copy reports other live flags / links / payloads than the source".into(), case: case_json(b, prefix, None, json!(b.st), json!(base)) });
    }
    if !base_ok && !via_pre_ok {
        // the state reached differs from the specification's although every single step from
        // shallower states is checked elsewhere; report against the last operation of the path
        st.path_failures += 1;
        let p = b.path.last().map(|c| prop_of_op(&c.op)).unwrap_or("C13");
        st.violation(keep, Finding { prop: p.into(), kind: "path-state".into(), detail: "state after the call path differs from the specification's".into(), case: case_json(b, prefix, None, json!(b.st), json!(base)) });
        // the lookup paths must agree with the ids handed out, whatever else went wrong (C11)
        if ctx.opts.lookups && ctx.opts.observers {
            compare_lookups(st, ctx, b, prefix, &sim);
        }
        // laws of the real iterators themselves still apply in this state
        if ctx.opts.pulls {
            for slot in 1..=base.count {
                if base.live[slot - 1] {
                    pulls_of_slot(st, ctx, b, prefix, &sim, slot, base.count + 1, None);
                }
            }
        }
        note_state(st, &base, b, None);
        return;
    }
    note_state(st, &base, b, None);
    fnv(&mut digest, serde_json::to_string(&base).unwrap().as_bytes());

    // 2. observers
    if ctx.opts.observers {
        compare_observers(st, ctx, b, prefix, &sim, prog);
        if ctx.opts.lookups {
            // digest of the observations (C17)
            if let Ok(lk) = std::panic::catch_unwind(std::panic::AssertUnwindSafe(|| sim.lookups())) {
                fnv(&mut digest, serde_json::to_string(&lk).unwrap().as_bytes());
            }
            for slot in 1..=b.st.count {
                if b.st.live.contains(&slot) {
                    fnv(&mut digest, serde_json::to_string(&sim.observe(slot, b.st.count + 1)).unwrap().as_bytes());
                }
            }
        }
    }

    // 3. every call the specification enables in this state
    if ctx.opts.outcomes {
        for (oi, o) in b.out.iter().enumerate() {
            let is_ins = ["append", "prepend", "insert_after", "insert_before"].contains(&o.c.op.as_str());
            let variants: &[bool] = if is_ins { &[true, false] } else { &[true] };
            for checked in variants {
                let mut c = o.c.clone();
                if is_ins {
                    c.checked = *checked;
                }
                let allowed: &Vec<String> = if is_ins && !*checked { &o.res_u } else { &o.res };
                // an allocation may return any reusable slot: outcomes are listed per slot and
                // the one matching the slot actually returned is used (see below)
                if (c.op == "new" || c.op == "append_value") && allowed.contains(&"Ok".to_string()) {
                    let want = if c.op == "new" { c.a } else { c.b };
                    // run once per listed slot is wasteful; run only for the first listed
                    // alternative and pick the matching expectation afterwards
                    let first_alt = b.out.iter().position(|x| x.c.op == c.op && x.c.v == c.v && (c.op == "new" || x.c.a == c.a)).unwrap();
                    if first_alt != oi {
                        continue;
                    }
                    prog.at(2, oi, 0);
                    let mut f = sim.fork();
                    let fcap = f.arena.capacity();
                    let d = f.apply(&c);
                    st.cases += 1;
                    *st.classes.entry(format!("{}:{}", c.op, d.class)).or_insert(0) += 1;
                    st.check("C05", 1);
                    if d.class != "Ok" {
                        st.violation(keep, Finding { prop: "C05".into(), kind: "valid-call-failed".into(), detail: format!("{} -> {} {}", c.op, d.class, d.panic_msg), case: case_json(b, prefix, Some(&c), json!(allowed), json!(d)) });
                        continue;
                    }
                    if c.op == "append_value" {
                        // append_value(v) == new_node(v) ; append  (whatever slot the allocation takes)
                        st.check("C03", 1);
                        let mut g = sim.fork();
                        let d1 = g.apply(&Call { op: "new".into(), a: 0, b: 0, v: c.v, checked: false, r: vec![] });
                        if d1.class == "Ok" {
                            let d2 = g.apply(&Call { op: "append".into(), a: c.a, b: d1.new, v: 0, checked: true, r: vec![] });
                            if d2.class != "Ok" || g.arena != f.arena {
                                st.violation(keep, Finding { prop: "C03".into(), kind: "append_value-vs-new+append".into(), detail: "arena after append_value(v) differs (==) from new_node(v) followed by append".into(), case: case_json(b, prefix, Some(&c), json!(g.proj()), json!(f.proj())) });
                            }
                        }
                    }
                    let alt = b.out.iter().find(|x| x.c.op == c.op && x.c.v == c.v && (c.op == "new" || x.c.a == c.a) && x.new == d.new);
                    match alt {
                        None => {
                            st.check("C07", 1);
                            let allowed_slots: Vec<usize> = b.out.iter().filter(|x| x.c.op == c.op && x.c.v == c.v && (c.op == "new" || x.c.a == c.a)).map(|x| x.new).collect();
                            st.violation(keep, Finding { prop: "C07".into(), kind: "slot".into(), detail: format!("allocation returned slot {} but the slots it may return are {:?}", d.new, allowed_slots), case: case_json(b, prefix, Some(&c), json!(allowed_slots), json!(d)) });
                        }
                        Some(x) => {
                            let got = compare_post(st, keep, b, prefix, &x.c, &base, fcap, &f, &d, &x.post, x.new, x.cap_keep, prop_of_op(&c.op));
                            st.nontrivial_cases += 1;
                            note_state(st, &got, b, Some(&x.c));
                            fnv(&mut digest, serde_json::to_string(&(d.class.as_str(), &got)).unwrap().as_bytes());
                            let _ = want;
                        }
                    }
                    continue;
                }
                prog.at(2, oi, if *checked { 0 } else { 1 });
                let mut f = sim.fork();
                let fcap = f.arena.capacity();
                let d = f.apply(&c);
                st.cases += 1;
                *st.classes.entry(format!("{}{}:{}", if is_ins && !*checked { "unchecked_" } else { "" }, c.op, d.class)).or_insert(0) += 1;
                // result class (C05; C12 when a removed id is involved)
                let removed_arg = (c.a >= 1 && c.a <= base.count && !base.live[c.a - 1] && c.op != "reserve") || (is_ins && c.b >= 1 && c.b <= base.count && !base.live[c.b - 1]);
                st.check("C05", 1);
                if removed_arg {
                    st.check("C12", 1);
                }
                let unknown_refusal = d.class == "ErrUnknown" && allowed.iter().any(|r| r == "Self" || r == "Removed" || r == "Ancestor");
                if !allowed.contains(&d.class) && !unknown_refusal {
                    let p = if removed_arg && allowed.iter().any(|r| r == "Removed" || r == "Panic") { "C12" } else { "C05" };
                    st.violation(keep, Finding { prop: p.into(), kind: "result".into(), detail: format!("{}{}(a={}, b={}) -> {} {} but the specification allows {:?}", if is_ins && !*checked { "unchecked " } else { "" }, c.op, c.a, c.b, d.class, d.panic_msg, allowed), case: case_json(b, prefix, Some(&c), json!(allowed), json!(d)) });
                    if allowed.len() == 1 && allowed[0] == "Ok" && prop_of_op(&c.op) != "C05" {
                        // the documented effect did not happen either ("... is a no-op that succeeds", "deletes exactly x")
                        st.violation(keep, Finding { prop: prop_of_op(&c.op).into(), kind: "valid-call-failed".into(), detail: format!("{}(a={}, b={}) -> {} {} although the call is possible", c.op, c.a, c.b, d.class, d.panic_msg), case: case_json(b, prefix, Some(&c), json!(allowed), json!(d)) });
                    }
                    if removed_arg && p == "C12" {
                        // also a C05 matter
                        st.violation(keep, Finding { prop: "C05".into(), kind: "result".into(), detail: format!("{}(a={}, b={}) -> {} but the specification allows {:?}", c.op, c.a, c.b, d.class, allowed), case: case_json(b, prefix, Some(&c), json!(allowed), json!(d)) });
                    }
                }
                let failed = d.class != "Ok";
                if failed {
                    // rejected atomically: the crate's own == against the untouched original
                    st.check("C05", 1);
                    if f.arena != sim.arena {
                        let p = if removed_arg { "C12" } else { "C05" };
                        st.violation(keep, Finding { prop: p.into(), kind: "not-atomic".into(), detail: format!("{}(a={}, b={}) -> {} but the arena is no longer equal to the snapshot taken before", c.op, c.a, c.b, d.class), case: case_json(b, prefix, Some(&c), json!(base), json!(f.proj())) });
                        if removed_arg {
                            st.violation(keep, Finding { prop: "C05".into(), kind: "not-atomic".into(), detail: format!("{}(a={}, b={}) -> {} but the arena changed", c.op, c.a, c.b, d.class), case: case_json(b, prefix, Some(&c), json!(base), json!(f.proj())) });
                        }
                    }
                }
                // the effect: if the crate failed where it must not (or vice versa) the effect
                // comparison would only repeat the same finding under another name
                let class_ok = allowed.contains(&d.class) || unknown_refusal;
                if class_ok && ctx.opts.post_pulls && !failed {
                    // C10 in the state AFTER the call (larger shapes are not bundle states themselves): rev() and
                    // a few pull words of every live node against the deque oracle on its own forward sequence
                    post_pulls(st, ctx, b, prefix, &c, &f);
                }
                if class_ok {
                    let got = compare_post(st, keep, b, prefix, &c, &base, fcap, &f, &d, &o.post, o.new, o.cap_keep, prop_of_op(&c.op));
                    if got != base || failed {
                        st.nontrivial_cases += 1;
                    }
                    fnv(&mut digest, serde_json::to_string(&(d.class.as_str(), &got)).unwrap().as_bytes());
                    note_state(st, &got, b, Some(&c));
                } else {
                    note_state(st, &f.proj(), b, Some(&c));
                }
                if st.samples.len() < 2 && ctx.bundle_idx % 997 == 3 && !failed && oi % 7 == 0 {
                    st.samples.push(json!({"path": b.path, "call": c, "result": d.class, "post_links": o.post.links}));
                }
                #[cfg(feature = "it_deser")]
                if ctx.opts.roundtrip {
                    crate::roundtrip::check_call(st, keep, b, prefix, &c, &sim, &f, &d);
                }
                // C13: a clone and its original evolve alike - the same call on a second ORIGINAL
                // (rebuilt from the path, never cloned) gives the same result and an equal arena
                if ctx.opts.clone_bisim && prefix.is_none() && (oi as u64 + ctx.bundle_idx) % 3 == 0 {
                    st.check("C13", 1);
                    let mut orig: Sim<P> = if ctx.opts.origin_mix { Sim::origin(ctx.bundle_idx) } else if ctx.opts.with_capacity > 0 { Sim::with_capacity(ctx.opts.with_capacity) } else { Sim::new() };
                    for pc in &b.path {
                        orig.apply(pc);
                    }
                    let d2 = orig.apply(&c);
                    if d2.class != d.class || d2.new != d.new || orig.arena != f.arena || orig.ids != f.ids || orig.drain() != f.drain() {
                        st.violation(keep, Finding { prop: "C13".into(), kind: "clone-diverges".into(), detail: format!("{}(a={}, b={}) gives {} / slot {} on the original and {} / slot {} on its clone, or different arenas / reusable slots", c.op, c.a, c.b, d2.class, d2.new, d.class, d.new), case: case_json(b, prefix, Some(&c), json!(orig.proj()), json!(f.proj())) });
                    }
                }
            }
        }
    }
    // C12 also for ids of removed nodes that were not handed out by an allocation but obtained from
    // get_node_id(&node) on the removed node itself: every insert with such an id must be refused as well
    if ctx.opts.outcomes && prefix.is_none() {
        for slot in 1..=b.st.count {
            if b.st.live.contains(&slot) {
                continue;
            }
            let alias = std::panic::catch_unwind(std::panic::AssertUnwindSafe(|| sim.arena.get_node_id(&sim.arena.as_slice()[slot - 1]))).unwrap_or(None);
            let id2 = match alias {
                Some(i) if usize::from(i) == slot && i != sim.ids[slot - 1] => i,
                _ => continue,
            };
            for o in b.out.iter() {
                let is_ins = ["append", "prepend", "insert_after", "insert_before"].contains(&o.c.op.as_str());
                if !(is_ins && (o.c.a == slot || o.c.b == slot)) && !(o.c.op == "append_value" && o.c.a == slot) {
                    continue;
                }
                st.check("C12", 1);
                let mut f = sim.fork();
                f.ids[slot - 1] = id2;
                let d = f.apply(&o.c);
                let refused_unknown = d.class == "ErrUnknown" && o.res.iter().any(|r| r == "Self" || r == "Removed" || r == "Ancestor");
                if (!o.res.contains(&d.class) && !refused_unknown) || f.arena != sim.arena {
                    st.violation(keep, Finding { prop: "C12".into(), kind: "removed-alias".into(), detail: format!("{}(a={}, b={}) with the id that get_node_id() reports for the removed node in slot {} -> {} (allowed {:?}), arena {}", o.c.op, o.c.a, o.c.b, slot, d.class, o.res, if f.arena != sim.arena { "CHANGED" } else { "unchanged" }), case: case_json(b, prefix, Some(&o.c), json!(o.res), json!(d)) });
                }
            }
        }
    }
    #[cfg(feature = "it_deser")]
    if ctx.opts.roundtrip {
        crate::roundtrip::check_state(st, keep, b, prefix, &sim);
    }
    // C13: determinism - the same path on a second new arena gives an equal arena and the same ids
    if prefix.is_none() {
        st.check("C13", 2);
        // clone_from onto a destination with an unrelated earlier content (the previous bundle's arena on
        // this worker) must give an arena equal to the source as well
        if ctx.opts.clone_bisim {
            if let Some(su) = (&sim as &dyn std::any::Any).downcast_ref::<Sim<u32>>() {
                st.check("C13", 1);
                let dst_opt = ctx.scratch.borrow_mut().take();
                let mut dst = dst_opt.unwrap_or_else(indextree::Arena::new);
                dst.clone_from(&su.arena);
                let d = Sim { arena: dst, ids: su.ids.clone(), toks: su.toks.clone(), issued: su.issued.clone() };
                let same = std::panic::catch_unwind(std::panic::AssertUnwindSafe(|| d.arena == su.arena && d.proj() == su.proj() && d.drain() == su.drain())).unwrap_or(false);
                if !same {
                    st.violation(keep, Finding { prop: "C13".into(), kind: "clone_from-not-equal".into(), detail: "dst.clone_from(&arena) onto a used destination gives an arena that differs from the source (==, links, payloads or reusable slots)".into(), case: case_json(b, prefix, None, json!(su.proj()), json!(d.proj())) });
                }
                // ... and evolves like the source: one removal followed by allocations (a free list carried over from the
                // destination's earlier life would show here)
                {
                    if let Some(slot) = (1..=su.arena.count()).find(|s| !su.arena[su.id(*s)].is_removed()) {
                        let rm = Call { op: "remove".into(), a: slot, b: 0, v: 0, checked: false, r: vec![] };
                        let mut d2 = d.fork();
                        let mut s2 = su.fork();
                        let r1 = d2.apply(&rm);
                        let r2 = s2.apply(&rm);
                        let same2 = std::panic::catch_unwind(std::panic::AssertUnwindSafe(|| r1.class == r2.class && d2.arena == s2.arena && d2.proj() == s2.proj() && d2.drain() == s2.drain())).unwrap_or(false);
                        if !same2 {
                            for p in ["C13", "C07"] {
                                st.violation(keep, Finding { prop: p.into(), kind: "clone_from-evolves-differently".into(), detail: format!("after dst.clone_from(&arena) onto a used destination, remove(slot {}) and the allocations that follow give a different arena / different reusable slots than on the source", slot), case: case_json(b, prefix, Some(&rm), json!({"proj": s2.proj(), "reusable": s2.drain()}), json!({"proj": d2.proj(), "reusable": std::panic::catch_unwind(std::panic::AssertUnwindSafe(|| d2.drain())).unwrap_or_default()})) });
                            }
                        }
                    }
                }
                *ctx.scratch.borrow_mut() = Some(d.arena);
            }
        }
        // reserve(k) that returns normally claims room for count() + k nodes, also for absurd k (a wrapped addition in a
        // release build would return quietly)
        if ctx.bundle_idx % 64 == 1 && sim.arena.count() > 0 {
            st.check("C13", 1);
            let mut f = sim.fork();
            let n0 = f.arena.count();
            for k in [usize::MAX, usize::MAX - n0 + 1, usize::MAX / 2 + 1] {
                let r = std::panic::catch_unwind(std::panic::AssertUnwindSafe(|| f.arena.reserve(k)));
                if r.is_ok() && n0.checked_add(k).map_or(true, |need| f.arena.capacity() < need) {
                    st.violation(keep, Finding { prop: "C13".into(), kind: "reserve".into(), detail: format!("reserve({}) on an arena of {} nodes returned normally but capacity() is {}", k, n0, f.arena.capacity()), case: case_json(b, prefix, None, json!(null), json!({"capacity": f.arena.capacity(), "count": n0, "k": k.to_string()})) });
                }
            }
            if f.proj() != sim.proj() {
                st.violation(keep, Finding { prop: "C13".into(), kind: "reserve".into(), detail: "a refused reserve() changed the arena".into(), case: case_json(b, prefix, None, json!(sim.proj()), json!(f.proj())) });
            }
        }
        // a clone compares equal to its original, and has the same reusable slots
        let cl = sim.fork();
        if cl.arena != sim.arena || cl.drain() != sim.drain() || cl.proj() != sim.proj() {
            st.violation(keep, Finding { prop: "C13".into(), kind: "clone-not-equal".into(), detail: "arena.clone() != arena (or it reports different links / payloads / reusable slots)".into(), case: case_json(b, prefix, None, json!(sim.proj()), json!(cl.proj())) });
        }
        let mut s2: Sim<P> = if ctx.opts.origin_mix { Sim::origin(ctx.bundle_idx) } else if ctx.opts.with_capacity > 0 { Sim::with_capacity(ctx.opts.with_capacity) } else { Sim::new() };
        for c in &b.path {
            s2.apply(c);
        }
        if s2.arena != sim.arena || s2.ids != sim.ids {
            st.violation(keep, Finding { prop: "C13".into(), kind: "determinism".into(), detail: "replaying the same calls on a second new arena gives a different arena or different ids".into(), case: case_json(b, prefix, None, json!(sim.proj()), json!(s2.proj())) });
        }
        // "with_capacity(n) and reserve(k) ... change nothing observable": the same calls on a plain Arena::new() give an arena
        // that compares equal (==, both ways) and the same ids. Origins that went through clear() are left out: for them the
        // property speaks of behaviour only (section C13), and that is what the rest of this mode compares.
        let plain_origin = ctx.opts.with_capacity > 0 || (ctx.opts.origin_mix && ![0, 4, 7].contains(&(ctx.bundle_idx % 8)));
        if plain_origin && prefix.is_none() {
            st.check("C13", 1);
            let mut s3: Sim<P> = Sim::new();
            for c in &b.path {
                s3.apply(c);
            }
            let same = std::panic::catch_unwind(std::panic::AssertUnwindSafe(|| s3.arena == sim.arena && sim.arena == s3.arena && s3.ids == sim.ids)).unwrap_or(false);
            if !same && s3.proj() == sim.proj() {
                st.violation(keep, Finding { prop: "C13".into(), kind: "origin-not-equal".into(), detail: "the same calls on Arena::new() and on an arena that was pre-sized (with_capacity / reserve / default / clone of an empty arena) give arenas with the same links, flags and payloads that do not compare equal (==) or different ids".into(), case: case_json(b, prefix, None, json!(s3.proj()), json!(sim.proj())) });
            }
        }
        // and the original was not disturbed by anything done to its clones
        if sim.proj() != base {
            st.violation(keep, Finding { prop: "C13".into(), kind: "clone-independence".into(), detail: "calls applied to clones changed the original".into(), case: case_json(b, prefix, None, json!(base), json!(sim.proj())) });
        }
    }
    st.digest = st.digest.wrapping_add(digest);
    if ctx.opts.after_clear {
        if let Some(su) = (&sim as &dyn std::any::Any).downcast_ref::<Sim<u32>>() {
            st.final_arena = Some(su.arena.clone());
        }
    }
}

pub fn signature(f: &Finding) -> String {
    format!("{}|{}|{}", f.prop, f.kind, f.case.get("call").map(|c| c.to_string()).unwrap_or_default())
}

/// one bundle: fresh, and (C13) after an arbitrary earlier history followed by clear()
fn process<P: Payload + Clone>(ctx: &Ctx, line: &str, prev_path: &Option<Vec<Call>>, prog: &Progress, st: &mut Stats) -> Option<Vec<Call>> {
    let b: Bundle = match serde_json::from_str(line) {
        Ok(b) => b,
        Err(e) => {
            eprintln!("harness: cannot parse bundle: {}", e);
            std::process::exit(2);
        }
    };
    st.bundles += 1;
    if ctx.opts.after_clear {
        // findings of the fresh run that also appear after clear() are not C13's
        let mut fresh = Stats::default();
        run_bundle::<P>(ctx, &b, &None, prog, &mut fresh);
        let mut cleared = Stats::default();
        let prefix = Some(prev_path.clone().unwrap_or_default());
        run_bundle::<P>(ctx, &b, &prefix, prog, &mut cleared);
        let fresh_sigs: HashSet<String> = fresh.findings.iter().map(signature).collect();
        st.check("C13", cleared.cases + 1);
        st.cases += cleared.cases;
        st.nontrivial_cases += cleared.nontrivial_cases;
        if cleared.prefix_failed || fresh.abandoned_policy > 0 {
            // no verdict: the comparison "after clear() like new" needs a reproducible prefix and path
            st.abandoned_policy += 1;
            return Some(b.path);
        }
        if let (Some(a), Some(c)) = (&fresh.final_arena, &cleared.final_arena) {
            if a != c {
                st.repr_differs_after_clear += 1;
            }
        }
        let differs = cleared.abandoned_policy != fresh.abandoned_policy;
        if differs {
            st.violation(ctx.opts.keep, Finding { prop: "C13".into(), kind: "after-clear-slot-numbering".into(), detail: "after clear() the allocation order differs from a new arena".into(), case: case_json(&b, &prefix, None, json!(null), json!(null)) });
        }
        for f in cleared.findings {
            if !fresh_sigs.contains(&signature(&f)) {
                st.violation(ctx.opts.keep, Finding { prop: "C13".into(), kind: format!("after-clear:{}", f.kind), detail: format!("only after clear(): {}", f.detail), case: f.case.clone() });
                // the history "..., clear(), ..." is a history like any other: the property the
                // mismatch belongs to is violated as well
                if f.prop != "C13" {
                    st.violation(ctx.opts.keep, Finding { prop: f.prop.clone(), kind: format!("after-clear:{}", f.kind), detail: format!("in a history containing clear(): {}", f.detail), case: f.case });
                }
            }
        }
        st.max_slots_seen = st.max_slots_seen.max(cleared.max_slots_seen);
    } else {
        run_bundle::<P>(ctx, &b, &None, prog, st);
    }
    Some(b.path)
}

pub fn load_detable(path: &str) -> DeTable {
    let mut t: DeTable = HashMap::new();
    if path.is_empty() {
        return t;
    }
    let txt = std::fs::read_to_string(path).unwrap_or_else(|e| {
        eprintln!("harness: cannot read pull-word table {}: {}", path, e);
        std::process::exit(2)
    });
    #[derive(Deserialize)]
    struct Row {
        n: usize,
        w: Vec<String>,
        r: Vec<usize>,
    }
    for line in txt.lines() {
        if line.trim().is_empty() {
            continue;
        }
        let rows: Vec<Row> = serde_json::from_str(line).unwrap_or_else(|e| {
            eprintln!("harness: bad pull-word table: {}", e);
            std::process::exit(2)
        });
        for r in rows {
            t.entry(r.n).or_default().push((r.w.concat(), r.r));
        }
    }
    t
}

pub fn run(input: &str, out: &str, states_out: &str, detable_path: &str, opts: Opts, threads: usize, deadline_s: u64) -> i32 {
    let t0 = Instant::now();
    let detable = Arc::new(load_detable(detable_path));
    let (tx, rx) = mpsc::sync_channel::<(u64, Arc<String>, Option<Vec<Call>>)>(64);
    let rx = Arc::new(Mutex::new(rx));
    let total = Arc::new(Mutex::new(Stats::default()));
    let stop = Arc::new(AtomicBool::new(false));
    let hangs = Arc::new(AtomicU64::new(0));
    let progs: Arc<Mutex<Vec<Arc<Progress>>>> = Arc::new(Mutex::new(Vec::new()));
    let live_workers = Arc::new(AtomicUsize::new(0));

    let spawn_worker = {
        let rx = rx.clone();
        let total = total.clone();
        let detable = detable.clone();
        let opts = opts.clone();
        let progs = progs.clone();
        let live_workers = live_workers.clone();
        move || {
            let prog = Arc::new(Progress::new());
            progs.lock().unwrap().push(prog.clone());
            let rx = rx.clone();
            let total = total.clone();
            let detable = detable.clone();
            let opts = opts.clone();
            let live_workers = live_workers.clone();
            live_workers.fetch_add(1, Ordering::SeqCst);
            std::thread::Builder::new()
                .stack_size(64 << 20)
                .spawn(move || {
                    let mut st = Stats::default();
                    let scratch: std::cell::RefCell<Option<indextree::Arena<u32>>> = std::cell::RefCell::new(None);
                    loop {
                        let item = {
                            let g = rx.lock().unwrap();
                            g.recv()
                        };
                        let (idx, line, prev) = match item {
                            Ok(x) => x,
                            Err(_) => break,
                        };
                        *prog.line.lock().unwrap() = Some(line.clone());
                        prog.bundle_idx.store(idx, Ordering::Relaxed);
                        prog.busy.store(true, Ordering::SeqCst);
                        let ctx = Ctx { opts: &opts, detable: &detable, bundle_idx: idx, scratch: &scratch };
                        // the harness' own reads can only panic on a corrupted arena: that is a finding
                        let r = std::panic::catch_unwind(std::panic::AssertUnwindSafe(|| {
                            if opts.tracked {
                                crate::tracked::process(&ctx, &line, &prog, &mut st);
                            } else {
                                process::<u32>(&ctx, &line, &prev, &prog, &mut st);
                            }
                        }));
                        if let Err(p) = r {
                            let msg = if let Some(s) = p.downcast_ref::<&str>() { s.to_string() } else if let Some(s) = p.downcast_ref::<String>() { s.clone() } else { "?".into() };
                            let path: serde_json::Value = serde_json::from_str::<serde_json::Value>(&line).map(|v| v["path"].clone()).unwrap_or(json!(null));
                            let prop = if msg.contains("freed node") { "C08" } else { "C05" };
                            st.violation(opts.keep, Finding { prop: prop.into(), kind: "state-unreadable".into(), detail: format!("reading the arena back through its public accessors panicked: {}", msg), case: json!({"path": path, "call": null, "expected": "readable state", "observed": msg}) });
                        }
                        prog.busy.store(false, Ordering::SeqCst);
                        prog.tick.fetch_add(1, Ordering::Relaxed);
                        if st.bundles % 64 == 0 {
                            let s = std::mem::take(&mut st);
                            total.lock().unwrap().merge(s);
                        }
                    }
                    total.lock().unwrap().merge(st);
                    live_workers.fetch_sub(1, Ordering::SeqCst);
                })
                .unwrap();
        }
    };
    for _ in 0..threads {
        spawn_worker();
    }

    // watchdog: a call that does not return is a C02 violation, not a tool error
    let wd = {
        let progs = progs.clone();
        let total = total.clone();
        let stop = stop.clone();
        let hangs = hangs.clone();
        let live_workers = live_workers.clone();
        let spawn_worker = spawn_worker.clone();
        std::thread::spawn(move || {
            let mut last: HashMap<usize, (u64, Instant)> = HashMap::new();
            let mut dead: HashSet<usize> = HashSet::new();
            while !stop.load(Ordering::SeqCst) {
                std::thread::sleep(Duration::from_millis(200));
                let list: Vec<Arc<Progress>> = progs.lock().unwrap().clone();
                for (i, p) in list.iter().enumerate() {
                    if dead.contains(&i) {
                        continue;
                    }
                    let t = p.tick.load(Ordering::Relaxed);
                    let e = last.entry(i).or_insert((t, Instant::now()));
                    if e.0 != t || !p.busy.load(Ordering::SeqCst) {
                        *e = (t, Instant::now());
                        continue;
                    }
                    if e.1.elapsed() > Duration::from_secs(deadline_s) {
                        dead.insert(i);
                        let n = hangs.fetch_add(1, Ordering::SeqCst) + 1;
                        let line = p.line.lock().unwrap().clone();
                        let mut case = json!(null);
                        let mut what = String::new();
                        if let Some(l) = line {
                            if let Ok(b) = serde_json::from_str::<Bundle>(&l) {
                                let ph = p.phase.load(Ordering::Relaxed);
                                let oi = p.out_idx.load(Ordering::Relaxed);
                                let var = p.variant.load(Ordering::Relaxed);
                                let call = match ph {
                                    0 => b.path.get(oi).cloned(),
                                    2 => b.out.get(oi).map(|o| {
                                        let mut c = o.c.clone();
                                        if var == 1 {
                                            c.checked = false;
                                        }
                                        c
                                    }),
                                    _ => None,
                                };
                                what = match ph {
                                    0 => format!("path call #{}", oi + 1),
                                    1 => format!("observers of slot {}", oi),
                                    _ => "call".to_string(),
                                };
                                case = case_json(&b, &None, call.as_ref(), json!("the call returns"), json!("no return within the deadline"));
                            }
                        }
                        let mut tot = total.lock().unwrap();
                        tot.hangs += 1;
                        tot.violation(3, Finding { prop: "C02".into(), kind: "hang".into(), detail: format!("{} did not return within {} s", what, deadline_s), case });
                        drop(tot);
                        live_workers.fetch_sub(1, Ordering::SeqCst);
                        if n < 4 {
                            spawn_worker();
                        }
                    }
                }
            }
        })
    };

    // reader
    let reader: Box<dyn BufRead> = if input == "-" {
        Box::new(std::io::BufReader::with_capacity(1 << 20, std::io::stdin()))
    } else {
        Box::new(std::io::BufReader::with_capacity(1 << 20, std::fs::File::open(input).unwrap_or_else(|e| {
            eprintln!("harness: cannot open {}: {}", input, e);
            std::process::exit(2)
        })))
    };
    let mut idx = 0u64;
    let mut prev_path: Option<Vec<Call>> = None;
    for line in reader.lines() {
        let line = match line {
            Ok(l) => l,
            Err(e) => {
                eprintln!("harness: read error: {}", e);
                return 2;
            }
        };
        if !line.starts_with('{') {
            continue;
        }
        if hangs.load(Ordering::SeqCst) >= 4 || live_workers.load(Ordering::SeqCst) == 0 {
            break;
        }
        idx += 1;
        let this_path: Option<Vec<Call>> = if opts.after_clear {
            // cheap extraction of the path for use as the *next* bundle's pre-clear history
            serde_json::from_str::<serde_json::Value>(&line).ok().and_then(|v| serde_json::from_value(v["path"].clone()).ok())
        } else {
            None
        };
        let mut item = (idx, Arc::new(line), prev_path.clone());
        loop {
            match tx.try_send(item) {
                Ok(()) => break,
                Err(mpsc::TrySendError::Full(it)) => {
                    item = it;
                    if live_workers.load(Ordering::SeqCst) == 0 {
                        break;
                    }
                    std::thread::sleep(Duration::from_millis(2));
                }
                Err(mpsc::TrySendError::Disconnected(_)) => break,
            }
        }
        if opts.after_clear {
            prev_path = this_path;
        }
    }
    drop(tx);
    // wait for the workers that are still alive (hung ones are abandoned)
    let wait0 = Instant::now();
    while live_workers.load(Ordering::SeqCst) > 0 {
        std::thread::sleep(Duration::from_millis(20));
        if wait0.elapsed() > Duration::from_secs(deadline_s * 6 + 600) {
            break;
        }
    }
    stop.store(true, Ordering::SeqCst);
    let _ = wd.join();

    let tot = std::mem::take(&mut *total.lock().unwrap());
    if !states_out.is_empty() {
        let mut w = std::io::BufWriter::new(std::fs::File::create(states_out).unwrap());
        for (s, wit) in &tot.real_states {
            let live: Vec<usize> = s.live.iter().enumerate().filter(|(_, l)| **l).map(|(i, _)| i + 1).collect();
            let wv: serde_json::Value = serde_json::from_str(wit).unwrap_or(json!(null));
            writeln!(w, "{}", json!({"n": s.count, "live": live, "links": s.links, "w": wv})).unwrap();
        }
    }
    let res = json!({
        "bundles": tot.bundles,
        "abandoned_policy": tot.abandoned_policy,
        "path_failures": tot.path_failures,
        "cases": tot.cases,
        "nontrivial_cases": tot.nontrivial_cases,
        "observer_checks": tot.observer_checks,
        "pull_checks": tot.pull_checks,
        "lookup_checks": tot.lookup_checks,
        "distinct_real_states": tot.real_states.len(),
        "checks": tot.checks,
        "violations": tot.violations,
        "findings": tot.findings,
        "classes": tot.classes,
        "digest": format!("{:016x}", tot.digest),
        "samples": tot.samples,
        "max_slots_seen": tot.max_slots_seen,
        "hangs": tot.hangs,
        "repr_differs_after_clear": tot.repr_differs_after_clear,
        "wall_s": t0.elapsed().as_secs_f64(),
        "debug_assertions": cfg!(debug_assertions),
    });
    std::fs::write(out, serde_json::to_string_pretty(&res).unwrap()).unwrap();
    0
}
