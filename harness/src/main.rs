//! Conformance harness binding the TLA+ specification of indextree to the real crate.
mod deep;
mod print;
mod record;
mod replay;
#[cfg(feature = "it_deser")]
mod roundtrip;
#[cfg(feature = "it_deser")]
mod wire;
mod sim;
#[cfg(feature = "it_threads")]
mod threads;
mod tracked;

use std::io::{BufRead, Write};

fn arg(args: &[String], name: &str, default: &str) -> String {
    args.iter().position(|a| a == name).and_then(|i| args.get(i + 1)).cloned().unwrap_or_else(|| default.to_string())
}
fn flag(args: &[String], name: &str) -> bool {
    args.iter().any(|a| a == name)
}

/// TLC prints `<<"BUNDLE", "{\"path\":...}">>`: a TLA+ string literal. Undo the escaping.
fn extract() -> i32 {
    let stdin = std::io::stdin();
    let out = std::io::stdout();
    let mut w = std::io::BufWriter::with_capacity(1 << 20, out.lock());
    let mut other = std::io::stderr();
    for line in stdin.lock().lines() {
        let line = match line {
            Ok(l) => l,
            Err(_) => return 2,
        };
        let pfx = "<<\"BUNDLE\", \"";
        if let Some(rest) = line.strip_prefix(pfx) {
            let body = match rest.strip_suffix("\">>") {
                Some(b) => b,
                None => {
                    let _ = writeln!(other, "TRUNCATED-BUNDLE-LINE");
                    continue;
                }
            };
            let mut s = String::with_capacity(body.len());
            let mut it = body.chars();
            while let Some(ch) = it.next() {
                if ch == '\\' {
                    match it.next() {
                        Some('"') => s.push('"'),
                        Some('\\') => s.push('\\'),
                        Some('n') => s.push_str("\\n"),
                        Some('t') => s.push_str("\\t"),
                        Some(o) => {
                            s.push('\\');
                            s.push(o)
                        }
                        None => {}
                    }
                } else {
                    s.push(ch);
                }
            }
            let _ = writeln!(w, "{}", s);
        } else {
            let _ = writeln!(other, "{}", line);
        }
    }
    0
}

fn main() {
    std::panic::set_hook(Box::new(|_| {}));
    let args: Vec<String> = std::env::args().collect();
    let cmd = args.get(1).map(|s| s.as_str()).unwrap_or("");
    let code = match cmd {
        "extract" => extract(),
        "replay" => {
            let opts = replay::Opts {
                observers: !flag(&args, "--no-observers"),
                outcomes: !flag(&args, "--no-outcomes"),
                pulls: flag(&args, "--pulls"),
                lookups: !flag(&args, "--no-lookups"),
                roundtrip: flag(&args, "--roundtrip"),
                after_clear: flag(&args, "--after-clear"),
                with_capacity: arg(&args, "--with-capacity", "0").parse().unwrap(),
                origin_mix: args.iter().any(|a| a == "--origin-mix"),
                tracked: flag(&args, "--tracked"),
                clone_bisim: flag(&args, "--clone-bisim"),
                post_pulls: flag(&args, "--post-pulls"),
                keep: arg(&args, "--keep", "3").parse().unwrap(),
            };
            let threads: usize = arg(&args, "--threads", "12").parse().unwrap();
            let deadline: u64 = arg(&args, "--deadline", "20").parse().unwrap();
            let code = replay::run(&arg(&args, "--bundles", "-"), &arg(&args, "--out", "replay.json"), &arg(&args, "--states-out", ""), &arg(&args, "--detable", ""), opts, threads, deadline);
            // hung worker threads (if any) must not keep the process alive
            std::process::exit(code);
        }
        "record" => record::run(&args),
        "print" => print::run(&args),
        "deep" => deep::run(&args),
        #[cfg(feature = "it_threads")]
        "threads" => threads::run(&args),
        "features" => {
            let mut f = Vec::new();
            if cfg!(feature = "it_std") { f.push("std"); }
            if cfg!(feature = "it_macros") { f.push("macros"); }
            if cfg!(feature = "it_par") { f.push("par_iter"); }
            if cfg!(feature = "it_deser") { f.push("deser"); }
            println!("{}", f.join(","));
            0
        }
        _ => {
            eprintln!("usage: itverif extract|replay|features ...");
            2
        }
    };
    std::process::exit(code);
}
