//! C18: many threads reading one shared &Arena observe what a single thread observes.
//! Per-thread observation logs are compared with the single-threaded log (never interleavings).

use crate::replay::Bundle;
use crate::sim::*;
use rand::rngs::StdRng;
use rand::{Rng, SeedableRng};
use serde_json::json;
use std::io::BufRead;

fn battery(sim: &Sim<u32>, words: &[&str]) -> Vec<String> {
    let n = sim.arena.count();
    let mut out = Vec::new();
    for slot in 1..=n {
        if sim.arena[sim.id(slot)].is_removed() {
            continue;
        }
        out.push(serde_json::to_string(&sim.observe(slot, n + 1)).unwrap());
        for which in ["kids", "prec", "foll"] {
            for w in words {
                out.push(format!("{:?}", sim.pulls(which, slot, w)));
            }
        }
    }
    out.push(serde_json::to_string(&sim.lookups()).unwrap());
    out.push(serde_json::to_string(&sim.proj()).unwrap());
    #[cfg(feature = "it_par")]
    {
        use rayon::prelude::*;
        let mut v: Vec<(bool, u32)> = sim.arena.par_iter().map(|n| (n.is_removed(), if n.is_removed() { 0 } else { *n.get() })).collect();
        v.sort();
        out.push(format!("{:?}", v));
    }
    out
}

#[cfg(feature = "it_par")]
fn par_iter_same_here(sim: &Sim<u32>) -> bool {
    use rayon::prelude::*;
    let mut a: Vec<(bool, u32, [i64; 5])> = Vec::new();
    let p = sim.proj();
    for i in 0..p.count {
        a.push((!p.live[i], p.val[i], p.links[i]));
    }
    let mut b: Vec<(bool, u32)> = sim.arena.par_iter().map(|n| (n.is_removed(), if n.is_removed() { 0 } else { *n.get() })).collect();
    let mut a2: Vec<(bool, u32)> = a.iter().map(|x| (x.0, x.1)).collect();
    a2.sort();
    b.sort();
    // and, addressed by position, par_iter visits exactly the nodes of iter()
    let pos: Vec<usize> = sim.arena.par_iter().map(|n| sim.arena.as_slice().iter().position(|m| std::ptr::eq(m, n)).unwrap_or(usize::MAX)).collect();
    let mut pos2 = pos.clone();
    pos2.sort();
    a2 == b && pos2 == (0..p.count).collect::<Vec<_>>()
}
/// in the global pool and inside pools of 1, 2, 3 and 5 workers (what par_iter visits must not depend on the pool);
/// returns the size of the first pool in which it differs (0 = global pool)
#[cfg(feature = "it_par")]
fn par_iter_differs(sim: &Sim<u32>, pools: &[rayon::ThreadPool]) -> Option<usize> {
    if !par_iter_same_here(sim) {
        return Some(0);
    }
    for p in pools {
        if !p.install(|| par_iter_same_here(sim)) {
            return Some(p.current_num_threads());
        }
    }
    None
}
#[cfg(feature = "it_par")]
fn make_pools() -> Vec<rayon::ThreadPool> {
    [1usize, 2, 3, 5].iter().filter_map(|n| rayon::ThreadPoolBuilder::new().num_threads(*n).build().ok()).collect()
}
#[cfg(not(feature = "it_par"))]
fn par_iter_differs(_sim: &Sim<u32>, _pools: &[()]) -> Option<usize> {
    None
}
#[cfg(not(feature = "it_par"))]
fn make_pools() -> Vec<()> {
    Vec::new()
}

pub fn run(args: &[String]) -> i32 {
    let get = |n: &str, d: &str| args.iter().position(|a| a == n).and_then(|i| args.get(i + 1)).cloned().unwrap_or_else(|| d.to_string());
    let out = get("--out", "threads.json");
    let nthreads: usize = get("--threads", "16").parse().unwrap();
    let every: u64 = get("--every", "1").parse().unwrap();
    let random: u64 = get("--random", "20").parse().unwrap();
    let seed: u64 = get("--seed", "1").parse().unwrap();
    let words = ["F", "B", "FB", "BF", "FFB", "BBF", "FBFB", "BFFBB", "FFFFFF", "BBBBBB"];
    let mut bundles = 0u64;
    let mut arenas = 0u64;
    let mut thread_logs = 0u64;
    let mut observations = 0u64;
    let mut findings: Vec<serde_json::Value> = Vec::new();
    let mut nviol = 0u64;
    let mut max_nodes = 0usize;
    let pools = make_pools();
    let mut check = |sim: &Sim<u32>, what: serde_json::Value| {
        arenas += 1;
        max_nodes = max_nodes.max(sim.arena.count());
        let reference = battery(sim, &words);
        observations += reference.len() as u64;
        let logs: Vec<Vec<String>> = std::thread::scope(|s| {
            let hs: Vec<_> = (0..nthreads).map(|_| s.spawn(|| battery(sim, &words))).collect();
            hs.into_iter().map(|h| h.join().unwrap_or_default()).collect()
        });
        for (t, l) in logs.iter().enumerate() {
            thread_logs += 1;
            if *l != reference {
                nviol += 1;
                if findings.len() < 5 {
                    let i = l.iter().zip(reference.iter()).position(|(a, b)| a != b).unwrap_or(0);
                    findings.push(json!({"prop": "C18", "kind": "thread-differs", "detail": format!("thread {} of {} concurrent readers observed something else than a single thread (observation #{})", t, nthreads, i),
                        "case": {"arena": what, "single": reference.get(i), "thread": l.get(i)}}));
                }
            }
        }
        if let Some(pool) = par_iter_differs(sim, &pools) {
            nviol += 1;
            if findings.len() < 6 {
                // stated by C17 ("par_iter() visits exactly the nodes of iter()") and by C18 (readers "through par_iter observe exactly
                // what a single thread observes"): reported under both
                let d = format!("par_iter() does not visit exactly the nodes of iter() ({} slots, {})", sim.arena.count(),
                    if pool == 0 { "global rayon pool".to_string() } else { format!("inside a rayon pool of {} workers", pool) });
                findings.push(json!({"prop": "C17", "kind": "par_iter", "detail": d, "case": {"arena": what, "pool": pool}}));
                findings.push(json!({"prop": "C18", "kind": "par_iter", "detail": d, "case": {"arena": what, "pool": pool}}));
            }
        }
    };
    let stdin = std::io::stdin();
    let mut idx = 0u64;
    let mut skipped = 0u64;
    for line in stdin.lock().lines() {
        let line = line.unwrap();
        if !line.starts_with('{') {
            continue;
        }
        idx += 1;
        if idx % every != 0 {
            continue;
        }
        let b: Bundle = match serde_json::from_str(&line) {
            Ok(b) => b,
            Err(e) => {
                eprintln!("harness: bad bundle: {}", e);
                return 2;
            }
        };
        // the paths were computed for one allocation policy; where the crate legitimately takes another free slot the
        // later calls of the path would address other nodes: such a bundle is skipped (as in the replay harness)
        let built = std::panic::catch_unwind(std::panic::AssertUnwindSafe(|| {
            let mut sim: Sim<u32> = Sim::new();
            for c in &b.path {
                let d = sim.apply(c);
                let want = if c.op == "new" { c.a } else if c.op == "append_value" { c.b } else { 0 };
                if d.class != "Ok" || (want != 0 && d.new != want) {
                    return None;
                }
            }
            Some(sim)
        }));
        let sim = match built {
            Ok(Some(s)) => s,
            _ => {
                skipped += 1;
                continue;
            }
        };
        bundles += 1;
        check(&sim, json!({"path": b.path}));
    }
    // larger arenas built by a seeded random history
    let mut rng = StdRng::seed_from_u64(seed);
    for k in 0..random {
        let mut sim: Sim<u32> = Sim::new();
        let n = 37 + (k as usize % 7) * 41 + k as usize;      // 37 .. 300 slots, lengths of many residues
        let mut calls = Vec::new();
        for i in 0..(n * 3) {
            let cnt = sim.arena.count();
            let c = if cnt < 3 || rng.gen_range(0..10) < 4 && cnt < n {
                Call { op: "new".into(), a: 0, b: 0, v: i as u32 + 1, checked: false, r: vec![] }
            } else {
                let a = rng.gen_range(1..=cnt);
                let b = rng.gen_range(1..=cnt);
                let live_a = !sim.arena[sim.id(a)].is_removed();
                match rng.gen_range(0..12) {
                    0 if live_a => Call { op: "remove".into(), a, b: 0, v: 0, checked: false, r: vec![] },
                    1 if live_a && cnt > 20 && rng.gen_range(0..4) == 0 => Call { op: "remove_subtree".into(), a, b: 0, v: 0, checked: false, r: vec![] },
                    2 | 3 => Call { op: "insert_after".into(), a, b, v: 0, checked: true, r: vec![] },
                    4 => Call { op: "insert_before".into(), a, b, v: 0, checked: true, r: vec![] },
                    5 => Call { op: "prepend".into(), a, b, v: 0, checked: true, r: vec![] },
                    _ => Call { op: "append".into(), a, b, v: 0, checked: true, r: vec![] },
                }
            };
            sim.apply(&c);
            calls.push(c);
        }
        check(&sim, json!({"random_history_seed": seed, "index": k, "calls": calls.len()}));
    }
    let res = json!({"bundles": bundles, "policy_divergences_skipped": skipped, "arenas": arenas, "threads": nthreads, "thread_logs": thread_logs, "observations_per_log_total": observations,
        "max_nodes": max_nodes, "violations": nviol, "findings": findings, "par_iter": cfg!(feature = "it_par")});
    std::fs::write(out, serde_json::to_string_pretty(&res).unwrap()).unwrap();
    0
}
