//! Very deep chains (hundreds of thousands of levels): every call must return, whatever the depth.
//! A call whose stack use grows with the depth of the tree overflows the stack, which ends the PROCESS; so this
//! runs as a child process on a thread with a fixed 2 MiB stack and writes the phase it is in to `--out` before
//! each call. The parent reads the last phase when the child dies. Expected values are the obvious functions of
//! the depth (a chain is its own specification: node i is the only child of node i-1).
use indextree::{Arena, NodeId};
use std::io::Write;

fn phase(out: &str, p: &str) {
    let mut f = std::fs::OpenOptions::new().create(true).append(true).open(out).unwrap();
    writeln!(f, "{}", p).unwrap();
}

fn body(depth: usize, out: String) -> Result<(), String> {
    let mut a: Arena<u32> = Arena::new();
    phase(&out, "build:append_value");
    let root = a.new_node(0);
    let mut ids: Vec<NodeId> = vec![root];
    for i in 1..depth {
        let last = *ids.last().unwrap();
        ids.push(last.append_value(i as u32, &mut a));
    }
    let leaf = *ids.last().unwrap();
    macro_rules! expect {
        ($name:expr, $got:expr, $want:expr) => {
            let g = $got;
            if g != $want {
                return Err(format!("{}: {} expected {}", $name, g, $want));
            }
        };
    }
    phase(&out, "C09:ancestors");
    expect!("leaf.ancestors().count()", leaf.ancestors(&a).count(), depth);
    phase(&out, "C09:descendants");
    expect!("root.descendants().count()", root.descendants(&a).count(), depth);
    phase(&out, "C09:traverse");
    expect!("root.traverse().count()", root.traverse(&a).count(), 2 * depth);
    phase(&out, "C09:reverse_traverse");
    expect!("root.reverse_traverse().count()", root.reverse_traverse(&a).count(), 2 * depth);
    phase(&out, "C05:checked_append(ancestor)");
    expect!("leaf.checked_append(root) is refused", leaf.checked_append(root, &mut a).is_err(), true);
    phase(&out, "C05:checked_insert_after(ancestor)");
    expect!("leaf.checked_insert_after(root) is refused", leaf.checked_insert_after(root, &mut a).is_err(), true);
    phase(&out, "C05,C03:valid-insert-at-depth");
    // a possible insert is never refused, however many ancestors the target has
    let fresh = a.new_node(u32::MAX);
    expect!("leaf.checked_append(fresh node) succeeds", leaf.checked_append(fresh, &mut a).is_ok(), true);
    expect!("leaf.checked_insert_after... (fresh node next to the deepest node) succeeds", fresh.checked_insert_before(a.new_node(u32::MAX - 1), &mut a).is_ok(), true);
    expect!("leaf.children().count()", leaf.children(&a).count(), 2);
    for c in leaf.children(&a).collect::<Vec<_>>() {
        c.remove(&mut a);
    }
    expect!("root.descendants().count() after removing the two extra leaves", root.descendants(&a).count(), depth);
    phase(&out, "C03:detach+append");
    let mid = ids[depth / 2];
    mid.detach(&mut a);
    expect!("root.descendants().count() after detaching the middle", root.descendants(&a).count(), depth / 2);
    ids[depth / 2 - 1].append(mid, &mut a);
    expect!("root.descendants().count() after re-attaching", root.descendants(&a).count(), depth);
    #[cfg(feature = "it_deser")]
    {
        phase(&out, "C16:round-trip(json)");
        let txt = serde_json::to_string(&a).map_err(|e| format!("serialize: {}", e))?;
        let copy: Arena<u32> = serde_json::from_str(&txt).map_err(|e| format!("deserialize(serialize(deep chain)) fails: {}", e))?;
        expect!("json copy == original", copy == a, true);
        drop(copy);
        phase(&out, "C16:round-trip(binary)");
        let bytes = crate::wire::to_bytes(&a).map_err(|e| format!("serialize: {}", e))?;
        let copy: Arena<u32> = crate::wire::from_bytes(&bytes).map_err(|e| format!("deserialize(serialize(deep chain)) fails: {}", e))?;
        expect!("binary copy == original", copy == a, true);
    }
    phase(&out, "C13:clone+eq");
    let c = a.clone();
    expect!("clone == original", c == a, true);
    drop(c);
    phase(&out, "C04:remove");
    ids[1].remove(&mut a);
    expect!("root.descendants().count() after remove of one inner node", root.descendants(&a).count(), depth - 1);
    phase(&out, "C04,C07:remove_subtree");
    root.remove_subtree(&mut a);
    expect!("every node is removed", a.iter().filter(|n| !n.is_removed()).count(), 0);
    phase(&out, "C07:recycle");
    let n0 = a.count();
    for i in 0..(depth + 2) {
        a.new_node(i as u32);
    }
    expect!("count() after as many allocations as slots were freed", a.count(), n0);
    phase(&out, "C11:display-specs");
    // Display of an id is its 1-based position, whatever width / fill / precision the caller asks for (padding aside)
    for pos in [1usize, 9, 10, 12, 123, 1000, depth - 1] {
        let id = a.get_node_id_at(std::num::NonZeroUsize::new(pos).unwrap()).ok_or_else(|| format!("get_node_id_at({}) is None", pos))?;
        for (spec, txt) in [("{}", format!("{}", id)), ("{:.1}", format!("{:.1}", id)), ("{:.2}", format!("{:.2}", id)), ("{:>8}", format!("{:>8}", id)), ("{:<8}", format!("{:<8}", id)), ("{:08}", format!("{:08}", id))] {
            let t = txt.trim().trim_start_matches('0');
            if t.parse::<usize>().ok() != Some(pos) || (spec == "{}" && txt != pos.to_string()) {
                return Err(format!("Display of the id at position {} under {} is {:?}", pos, spec, txt));
            }
        }
        expect!("usize::from(id)", usize::from(id), pos);
    }
    phase(&out, "C13:clear+drop");
    a.clear();
    expect!("count() after clear", a.count(), 0);
    drop(a);
    Ok(())
}

/// sibling lists and top-level chains of `w` nodes consumed from both ends
fn wide(w: usize, out: String) -> Result<(), String> {
    let mut a: Arena<u32> = Arena::new();
    phase(&out, "C03:wide-build");
    let root = a.new_node(0);
    let kids: Vec<NodeId> = (0..w).map(|i| root.append_value(i as u32 + 1, &mut a)).collect();
    let mut tops = vec![a.new_node(7)];
    for i in 1..w {
        let n = a.new_node(7 + i as u32);
        tops[i - 1].insert_after(n, &mut a);
        tops.push(n);
    }
    macro_rules! same {
        ($name:expr, $got:expr, $want:expr) => {
            if $got != $want {
                return Err(format!("{} differs from the {} nodes in the order they were inserted", $name, w));
            }
        };
    }
    let rev = |v: &Vec<NodeId>| -> Vec<NodeId> { v.iter().rev().copied().collect() };
    phase(&out, "C10:wide-children");
    same!("root.children()", root.children(&a).collect::<Vec<_>>(), kids);
    same!("root.children().rev()", root.children(&a).rev().collect::<Vec<_>>(), rev(&kids));
    phase(&out, "C10:wide-siblings");
    same!("first.following_siblings()", kids[0].following_siblings(&a).collect::<Vec<_>>(), kids);
    same!("first.following_siblings().rev()", kids[0].following_siblings(&a).rev().collect::<Vec<_>>(), rev(&kids));
    same!("last.preceding_siblings()", kids[w - 1].preceding_siblings(&a).collect::<Vec<_>>(), rev(&kids));
    same!("last.preceding_siblings().rev()", kids[w - 1].preceding_siblings(&a).rev().collect::<Vec<_>>(), kids);
    phase(&out, "C10:wide-top-level-chain");
    same!("head.following_siblings()", tops[0].following_siblings(&a).collect::<Vec<_>>(), tops);
    same!("head.following_siblings().rev()", tops[0].following_siblings(&a).rev().collect::<Vec<_>>(), rev(&tops));
    same!("tail.preceding_siblings()", tops[w - 1].preceding_siblings(&a).collect::<Vec<_>>(), rev(&tops));
    same!("tail.preceding_siblings().rev()", tops[w - 1].preceding_siblings(&a).rev().collect::<Vec<_>>(), tops);
    // alternating ends meet in the middle, every node once
    let mut it = root.children(&a);
    let mut seen = Vec::new();
    loop {
        match it.next() {
            Some(x) => seen.push(x),
            None => break,
        }
        match it.next_back() {
            Some(x) => seen.push(x),
            None => break,
        }
    }
    let mut s2 = seen.clone();
    s2.sort();
    s2.dedup();
    if seen.len() != w || s2.len() != w || it.next().is_some() || it.next_back().is_some() {
        return Err(format!("alternating next()/next_back() over {} children yields {} items ({} distinct)", w, seen.len(), s2.len()));
    }
    phase(&out, "C09:wide-reverse_children");
    same!("root.reverse_children()", root.reverse_children(&a).collect::<Vec<_>>(), rev(&kids));
    phase(&out, "C04:wide-remove");
    kids[w / 2].remove(&mut a);
    root.remove(&mut a);
    if kids[0].following_siblings(&a).count() != w - 1 {
        return Err("after removing the parent its children do not form one chain".into());
    }
    Ok(())
}

/// the printers on a chain of `depth` levels, on a small stack, into a sink that only counts
fn print_deep(depth: usize, out: String) -> Result<(), String> {
    struct Count {
        lines: usize,
        cur: usize,
        last: usize,
    }
    impl std::fmt::Write for Count {
        fn write_str(&mut self, s: &str) -> std::fmt::Result {
            for b in s.bytes() {
                if b == b'\n' {
                    self.lines += 1;
                    self.last = self.cur;
                    self.cur = 0;
                } else {
                    self.cur += 1;
                }
            }
            Ok(())
        }
    }
    let mut a: Arena<u32> = Arena::new();
    let root = a.new_node(7);
    let mut last = root;
    for _ in 1..depth {
        last = last.append_value(7, &mut a);
    }
    for (mode, ph) in [(0, "C14:print-deep {}"), (1, "C14:print-deep {:#?}")] {
        phase(&out, ph);
        let mut c = Count { lines: 0, cur: 0, last: 0 };
        use std::fmt::Write;
        let r = if mode == 0 { write!(c, "{}", root.debug_pretty_print(&a)) } else { write!(c, "{:#?}", root.debug_pretty_print(&a)) };
        if r.is_err() {
            return Err("printing a deep chain reports an error".into());
        }
        // one line per node (the last one unterminated); the last line: 4 columns per level below the root's child, lead, "7"
        if c.lines + 1 != depth || c.cur != 4 * (depth - 1) + 1 {
            return Err(format!("a chain of {} nodes is drawn with {} lines, the last one {} characters long (expected {})", depth, c.lines + 1, c.cur, 4 * (depth - 1) + 1));
        }
    }
    Ok(())
}

pub fn run(args: &[String]) -> i32 {
    let get = |n: &str, d: &str| args.iter().position(|a| a == n).and_then(|i| args.get(i + 1)).cloned().unwrap_or_else(|| d.to_string());
    let depth: usize = get("--depth", "300000").parse().unwrap();
    let out = get("--out", "deep.phases");
    let _ = std::fs::remove_file(&out);
    let o2 = out.clone();
    let wide_n: usize = get("--wide", "700").parse().unwrap();
    let print_depth: usize = get("--print-depth", "4000").parse().unwrap();
    let h = std::thread::Builder::new().stack_size(2 << 20).spawn(move || {
        body(depth, o2.clone())?;
        wide(wide_n, o2.clone())?;
        // the printers on a smaller stack (their output grows with the square of the depth)
        let o3 = o2.clone();
        match std::thread::Builder::new().stack_size(256 << 10).spawn(move || print_deep(print_depth, o3)).unwrap().join() {
            Ok(r) => r?,
            Err(_) => return Err("PANIC-INNER".to_string()),
        }
        phase(&o2, "done");
        Ok(())
    }).unwrap();
    match h.join() {
        Ok(Ok(())) => 0,
        Ok(Err(e)) if e == "PANIC-INNER" => {
            phase(&out, "PANIC");
            0
        }
        Ok(Err(e)) => {
            phase(&out, &format!("WRONG {}", e));
            0
        }
        Err(_) => {
            phase(&out, "PANIC");
            0
        }
    }
}
