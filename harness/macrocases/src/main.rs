// C15: runs generated tree! invocations (src/cases.rs is written by lib/macrogen.py from the
// literals enumerated by TLC) and reports what was built. No expectations live here.
use indextree::{macros::tree, Arena, NodeId};
use serde_json::{json, Value};
use std::cell::RefCell;

thread_local! { static LOG: RefCell<Vec<i64>> = const { RefCell::new(Vec::new()) }; }
fn lg(i: i64) {
    LOG.with(|l| l.borrow_mut().push(i));
}

fn report(out: &mut Vec<Value>, n: usize, form: &str, arena: &Arena<i64>, ret: NodeId, root: Option<NodeId>) {
    let mut kids = serde_json::Map::new();
    for node in arena.iter() {
        if node.is_removed() {
            continue;
        }
        let id = arena.get_node_id(node).unwrap();
        let ks: Vec<i64> = id.children(arena).take(10_000).map(|c| *arena[c].get()).collect();
        kids.insert(node.get().to_string(), json!(ks));
    }
    let log: Vec<i64> = LOG.with(|l| l.borrow().clone());
    out.push(json!({
        "n": n, "form": form, "count": arena.count(), "kids": kids, "log": log,
        "ret_payload": *arena[ret].get(),
        "ret_is_given_root": root.map(|r| r == ret),
        "ret_parent_none": arena[ret].parent().is_none(),
    }));
}

// payloads that are themselves ids (of the arena `docs`, whose node i carries the label i)
fn report_n(out: &mut Vec<Value>, n: usize, form: &str, arena: &Arena<NodeId>, docs: &Arena<i64>, ret: NodeId, root: Option<NodeId>) {
    let label = |id: NodeId| *docs[*arena[id].get()].get();
    let mut kids = serde_json::Map::new();
    for node in arena.iter() {
        if node.is_removed() {
            continue;
        }
        let id = arena.get_node_id(node).unwrap();
        let ks: Vec<i64> = id.children(arena).take(10_000).map(label).collect();
        kids.insert(label(id).to_string(), json!(ks));
    }
    let log: Vec<i64> = LOG.with(|l| l.borrow().clone());
    out.push(json!({
        "n": n, "form": form, "count": arena.count(), "kids": kids, "log": log,
        "ret_payload": label(ret),
        "ret_is_given_root": root.map(|r| r == ret),
        "ret_parent_none": arena[ret].parent().is_none(),
    }));
}

// a payload with drop glue: every label counts its destructor runs
use std::sync::atomic::{AtomicUsize, Ordering};
static DROPS: [AtomicUsize; 256] = [const { AtomicUsize::new(0) }; 256];
#[derive(Debug)]
pub struct P(pub i64);
impl Drop for P {
    fn drop(&mut self) {
        DROPS[(self.0 + 128) as usize].fetch_add(1, Ordering::SeqCst);
    }
}
fn drops_total() -> usize {
    DROPS.iter().map(|d| d.load(Ordering::SeqCst)).sum()
}

fn report_p(out: &mut Vec<Value>, n: usize, form: &str, arena: Arena<P>, ret: NodeId, root: Option<NodeId>, drops_before: usize) {
    let mut kids = serde_json::Map::new();
    let mut labels = Vec::new();
    for node in arena.iter() {
        if node.is_removed() {
            continue;
        }
        let id = arena.get_node_id(node).unwrap();
        let ks: Vec<i64> = id.children(&arena).take(10_000).map(|c| arena[c].get().0).collect();
        kids.insert(node.get().0.to_string(), json!(ks));
        labels.push(node.get().0);
    }
    let log: Vec<i64> = LOG.with(|l| l.borrow().clone());
    let ret_payload = arena[ret].get().0;
    let ret_is_root = root.map(|r| r == ret);
    let ret_parent_none = arena[ret].parent().is_none();
    let count = arena.count();
    // no payload may have been destroyed while the arena is alive ...
    let drops_while_alive = drops_total() - drops_before;
    let per_label_before: Vec<usize> = labels.iter().map(|l| DROPS[(*l + 128) as usize].load(Ordering::SeqCst)).collect();
    drop(arena);
    // ... and dropping the arena destroys each exactly once
    let once = labels.iter().zip(per_label_before.iter()).all(|(l, b)| DROPS[(*l + 128) as usize].load(Ordering::SeqCst) == b + 1);
    out.push(json!({
        "n": n, "form": form, "count": count, "kids": kids, "log": log,
        "ret_payload": ret_payload, "ret_is_given_root": ret_is_root, "ret_parent_none": ret_parent_none,
        "drops_while_alive": drops_while_alive, "each_dropped_once_with_arena": once,
    }));
}

include!("cases.rs");

fn main() {
    let mut out = Vec::new();
    run_all(&mut out);
    println!("{}", serde_json::to_string(&out).unwrap());
}
