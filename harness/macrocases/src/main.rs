// C15: runs generated tree! invocations (src/cases.rs is written by lib/macrogen.py from the
// literals enumerated by TLC) and reports what was built. No expectations live here.
use indextree::{macros::tree, Arena, NodeId};
use serde_json::{json, Value};
use std::cell::RefCell;

thread_local! { static LOG: RefCell<Vec<i64>> = const { RefCell::new(Vec::new()) }; }
fn lg(i: i64) {
    LOG.with(|l| l.borrow_mut().push(i));
}

fn report(out: &mut Vec<Value>, n: usize, form: &str, arena: &Arena<i64>, ret: NodeId, root: Option<NodeId>) {
    let mut kids = serde_json::Map::new();
    for node in arena.iter() {
        if node.is_removed() {
            continue;
        }
        let id = arena.get_node_id(node).unwrap();
        let ks: Vec<i64> = id.children(arena).take(10_000).map(|c| *arena[c].get()).collect();
        kids.insert(node.get().to_string(), json!(ks));
    }
    let log: Vec<i64> = LOG.with(|l| l.borrow().clone());
    out.push(json!({
        "n": n, "form": form, "count": arena.count(), "kids": kids, "log": log,
        "ret_payload": *arena[ret].get(),
        "ret_is_given_root": root.map(|r| r == ret),
        "ret_parent_none": arena[ret].parent().is_none(),
    }));
}

include!("cases.rs");

fn main() {
    let mut out = Vec::new();
    run_all(&mut out);
    println!("{}", serde_json::to_string(&out).unwrap());
}
